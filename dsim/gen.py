"""Scenario generators (DESIGN 4.1).  Everything is derived from one integer."""
from __future__ import annotations

import random
from typing import Any, Dict, List

from .loop import h64
from .refmodel import RM, common_len, group_paths

TYPES = ("time-based", "event-based", "hybrid")
OUTS = {"time-based": ["p_out"], "event-based": ["e_out"], "hybrid": ["p_out", "e_out"]}
INS = {"time-based": ["m_in"], "event-based": ["t_in"], "hybrid": ["m_in", "t_in"]}


def sub_seed(seed, label) -> int:
    return h64(seed, label)


def gen_groups(rng, feats) -> List[Any]:
    groups = [None]
    if not feats["groups"]:
        return groups
    n = rng.choice([1, 1, 2, 2, 3, 4])
    for _ in range(n):
        # depth limit 3
        cands = []
        for g in range(len(groups)):
            d, x = 1, g
            while groups[x] is not None:
                x = groups[x]
                d += 1
            if d < 3:
                cands.append(g)
        if feats["siblings"] and len(groups) > 1 and rng.random() < 0.5:
            p = groups[rng.randrange(1, len(groups))]   # sibling of an existing group
            if p in cands:
                groups.append(p)
                continue
        groups.append(rng.choice(cands))
    return groups


def gen_beh(rng, typ, feats) -> Dict[str, Any]:
    b: Dict[str, Any] = {"bseed": rng.randrange(1 << 30)}
    if typ == "time-based":
        k = rng.choice([1, 1, 2, 3])
        b["step_sizes"] = [rng.choice([1, 1, 2, 2, 3, 4]) for _ in range(k)]
        b["vary"] = k > 1
    else:
        b["p_self"] = rng.choice([0.0, 0.3, 0.8])
        b["self_d"] = rng.choice([1, 2, 3])
        b["p_out"] = rng.choice([0.3, 0.7, 1.0])
        b["loop_len"] = rng.choice([1, 1, 2, 3])
        if feats["future"] and rng.random() < 0.4:
            b["future"] = True
            b["p_future"] = rng.choice([0.3, 0.6])
            if feats.get("future_pers") and typ == "hybrid":
                # replies that carry persistent attributes together with a future time
                b["future_pers"] = True
        if rng.random() < 0.15:
            b["explicit_time"] = True
        if feats.get("none_values") and rng.random() < 0.6:
            b["p_none"] = rng.choice([0.3, 1.0])     # events whose value is None
    if feats.get("pers_offset") and typ != "event-based" and not b.get("future") and rng.random() < 0.5:
        # every reply of this simulator is dated a constant number of time units after its step
        # (persistent values included; output times stay monotone, so "most recent value whose
        # output time is due" remains unambiguous - unlike arbitrary future times, carve-out 3)
        b["pers_offset"] = rng.choice([1, 1, 2])
    if feats["react"] and rng.random() < 0.5:
        b["react"] = True
    if feats.get("reuse_reply") and rng.random() < 0.6:
        b["reuse_reply"] = True      # (in-process only) one reply dict, re-filled for every get_data call
    return b


TRANSPORT_MIXES = {
    "mixed": [("stock", 15), ("gated", 55), ("remote", 20), ("cmd", 10)],
    "local": [("stock", 20), ("gated", 80)],
    "gated": [("gated", 100)],
    "remote": [("remote", 70), ("cmd", 30)],
}


def pick_weighted(rng, items):
    tot = sum(w for _, w in items)
    x = rng.random() * tot
    for v, w in items:
        x -= w
        if x < 0:
            return v
    return items[-1][0]


def swarm_features(rng, force=None) -> Dict[str, bool]:
    f = {
        "groups": rng.random() < 0.6,
        "siblings": rng.random() < 0.5,
        "weak": rng.random() < 0.6,
        "shift": rng.random() < 0.7,
        "future": rng.random() < 0.4,
        "multi_ent": rng.random() < 0.4,
        "parallel": rng.random() < 0.4,
        "self_conn": rng.random() < 0.15,
        "init_events": rng.random() < 0.5,
        "react": rng.random() < 0.3,
        "extra_init": rng.random() < 0.3,
        "multi_pair": rng.random() < 0.2,
        "any_inputs": rng.random() < 0.25,
        "future_pers": False,     # carve-out 3 (persistent attributes with a future time): only when forced
        "late_start": rng.random() < 0.25,   # time-based/hybrid simulators whose first step is at t>0
        "pers_offset": rng.random() < 0.12,  # replies dated a constant offset after the step
        "children": rng.random() < 0.1,      # child entities of another model as connection ends
        "none_values": rng.random() < 0.1,   # event outputs that are present but None
        "reuse_reply": rng.random() < 0.1,   # in-process simulators that re-use their reply dict
    }
    if force:
        f.update(force)
    return f


def gen_core(seed: int, tier: str = "quick", force=None, transport_mix="mixed",
             max_sims=None) -> Dict[str, Any]:
    rng = random.Random(sub_seed(seed, "gen"))
    feats = swarm_features(rng, force)
    groups = gen_groups(rng, feats)
    n = rng.choice([1, 2, 2, 3, 3, 3, 4, 4, 5])
    if tier == "thorough" and rng.random() < 0.15:
        n = 6
    if max_sims:
        n = min(n, max_sims)
    sims = []
    mix = TRANSPORT_MIXES[transport_mix]
    for i in range(n):
        typ = rng.choice(TYPES)
        s = {
            "sid": f"S{i}", "type": typ, "group": rng.randrange(len(groups)),
            "n_ent": 2 if (feats["multi_ent"] and rng.random() < 0.5) else 1,
            "meta_style": rng.choice([0, 0, 1, 2, 3]) if typ == "hybrid" else rng.choice([0, 0, 1]),
            "transport": pick_weighted(rng, mix),
            "beh": gen_beh(rng, typ, feats),
        }
        if typ == "event-based":
            if feats["init_events"]:
                s["init_event"] = rng.choice([None, 0, 0, 1, 2, 3])
            else:
                s["init_event"] = rng.choice([None, 0])
        elif feats.get("late_start") and rng.random() < 0.4:
            # set_initial_event replaces the step at 0 that these simulators get by default
            s["init_event"] = rng.choice([1, 2, 3])
        if feats.get("any_inputs") and rng.random() < 0.4:
            # accepts inputs on attributes it never declared
            s["any_inputs"] = True
            s["meta_style"] = s["meta_style"] if (typ == "hybrid" and s["meta_style"] in (0, 1, 3)) else 0
        sims.append(s)
    paths = group_paths({"groups": groups})
    conns: List[Dict[str, Any]] = []
    used = set()
    n_conn = rng.choice([0, 1, 2, 2, 3, 3, 4, 5, 6, 8]) if n > 1 else rng.choice([0, 0, 1])
    tries = 0
    while len(conns) < n_conn and tries < 60:
        tries += 1
        if conns and feats["parallel"] and rng.random() < 0.3:
            base = rng.choice(conns)
            a, b = base["src"], base["dst"]
        else:
            a = rng.randrange(n)
            b = rng.randrange(n)
        if a == b and not (feats["self_conn"] and feats["shift"]):
            continue
        sa, sb = sims[a], sims[b]
        se = rng.randrange(sa["n_ent"])
        de = rng.randrange(sb["n_ent"])
        if a == b and se == de and sa["n_ent"] > 1:
            de = 1 - se
        npairs = 2 if (feats["multi_pair"] and rng.random() < 0.5) else 1
        pairs = []
        for _ in range(npairs):
            ua = rng.choice(OUTS[sa["type"]])
            va = rng.choice(INS[sb["type"]])
            if sb.get("any_inputs") and rng.random() < 0.5:
                va = rng.choice(["zz_in", "yy_in"])
            if (a, se, b, de, va) in used or any(p[1] == va for p in pairs):
                continue
            pairs.append([ua, va])
        if not pairs:
            continue
        pa, pb = paths[sa["group"]], paths[sb["group"]]
        cl = common_len(pa, pb)
        shift = 0
        weak = False
        if feats["shift"] and (a == b or rng.random() < 0.35):
            shift = rng.choice([1, 1, 1, 2, 3])
        if feats["weak"] and cl >= 2 and a != b and rng.random() < 0.45:
            weak = True
        c = {"src": a, "se": se, "dst": b, "de": de, "pairs": pairs,
             "shift": shift, "weak": weak}
        init = {}
        for ua, va in pairs:
            if va in ("zz_in", "yy_in"):
                # undeclared attribute of an any_inputs model: trigger for event-based models and for
                # hybrid models that only list their non-trigger attributes, non-trigger otherwise
                nontrig = not (sb["type"] == "event-based" or (sb["type"] == "hybrid" and sb["meta_style"] == 1))
            else:
                nontrig = (va == "m_in")
            pers = (ua == "p_out")
            if (shift or weak) and nontrig:
                init[ua] = f"init{len(conns)}:{ua}"
            elif pers and (shift or weak) and rng.random() < 0.7:
                init[ua] = f"init{len(conns)}:{ua}"
            elif pers and feats["extra_init"] and rng.random() < 0.3:
                init[ua] = f"init{len(conns)}:{ua}"
        if init:
            c["init"] = init
        if shift == 1 and rng.random() < 0.5:
            c["shift_bool"] = True
        for ua, va in pairs:
            used.add((a, se, b, de, va))
        conns.append(c)
    big = tier == "thorough"
    until = rng.choice([1, 2, 3, 4, 5, 6, 7, 8] if not big else list(range(1, 15)) + [16, 20])
    if rng.random() < 0.3:
        # pruning active: until large against the step sizes
        until = max(until, rng.choice([8, 9, 10] if not big else [12, 13, 14]))
    cfg = {
        "cache": rng.random() < 0.5,
        "lazy": rng.random() < 0.6,
        "debug": rng.random() < 0.1,
        "mli": rng.choice([6, 8, 12, 100]),
        "start_seed": rng.choice([None, rng.randrange(1 << 30)]),
        "connect_seed": rng.choice([None, rng.randrange(1 << 30)]),
        "order_seed": rng.choice([None, rng.randrange(1 << 30)]),
        "iteration_cost": rng.choice([0.0, 0.0, 1e-5]),
    }
    if feats.get("children"):
        # some connection ends are child entities, which have a model of their own (stubs.child_desc)
        for s in sims:
            if rng.random() < 0.6 and not s.get("any_inputs"):
                s["child"] = True
        for c in conns:
            if sims[c["src"]].get("child") and rng.random() < 0.4:
                c["sc"] = True
                c["pairs"] = [["c" + p[0], p[1]] for p in c["pairs"]]
                if c.get("init") is not None:
                    c["init"] = {"c" + k_: v_ for k_, v_ in c["init"].items()}
            if sims[c["dst"]].get("child") and rng.random() < 0.5:
                c["dc"] = True
                if rng.random() < 0.4:
                    c["pairs"] = [[p[0], "c" + p[1]] for p in c["pairs"]]
    sc = {"groups": groups, "sims": sims, "conns": conns, "until": until, "config": cfg,
          "feats": {k: v for k, v in feats.items() if v}}
    repair_cycles(sc, rng)
    return sc


def repair_cycles(sc, rng, max_rounds=20):
    """Make the scenario pass RM's cycle oracle by turning connections on unresolved
    cycles into time-shifted ones (with initial data where RM requires it)."""
    for _ in range(max_rounds):
        rm = RM(sc)
        # connections that lack required initial data (e.g. after a repair below)
        fixed_init = False
        for c, verdict in zip(sc["conns"], rm.verdicts):
            if verdict and "needs initial data" in verdict and not c.get("illegal_kind"):
                init = dict(c.get("init") or {})
                for pi, why in eval(verdict):
                    if why == ["needs initial data"]:
                        ua = c["pairs"][pi][0]
                        init.setdefault(ua, f"initR:{ua}")
                        fixed_init = True
                c["init"] = init
        if fixed_init:
            continue
        cyc = rm.unresolved_cycles()
        if not cyc:
            return True
        members = cyc[0]
        r = len(members)
        hops = [(members[i], members[(i + 1) % r]) for i in range(r)]
        h = rng.choice(hops)
        for c in sc["conns"]:
            u = sc["sims"][c["src"]]["sid"]
            v = sc["sims"][c["dst"]]["sid"]
            if (u, v) == h and not c.get("shift"):
                c["shift"] = 1
                init = dict(c.get("init") or {})
                for ua, va in c["pairs"]:
                    if va == "m_in" and ua not in init:
                        init[ua] = f"initR:{ua}"
                if init:
                    c["init"] = init
                if c.get("async"):
                    c["async"] = False
    # give up: drop all connections
    sc["conns"] = []
    return False


PROFILES = ("zero", "uniform", "per_sim", "starved", "heavy", "slow_req", "ties")


def gen_schedule(seed: int, scenario, j: int) -> Dict[str, Any]:
    """Schedule number j for a scenario; j == 0 is the all-zero 'sync' baseline."""
    if j == 0:
        return {"profile": "sync", "seed": 0}
    rng = random.Random(h64(seed, "sched", j))
    prof = rng.choice(PROFILES)
    spec = {"profile": prof, "seed": rng.randrange(1 << 30)}
    if prof == "starved":
        spec["starved"] = rng.choice(scenario["sims"])["sid"]
    if rng.random() < 0.25:
        spec["split"] = True
    return spec


# ---------------------------------------------------------------------------------
# C06: connection multigraphs
def gen_dense_graph(seed: int, tier: str = "quick") -> Dict[str, Any]:
    """Many simulators, nearly every ordered pair connected by a time-shifted connection, plus a
    few plain connections that may or may not close a (long) zero-delay ring.  No weak
    connections, so RM decides by a DFS over the plain hops."""
    rng = random.Random(sub_seed(seed, "dense"))
    n = rng.choice([5, 6, 7, 8])
    groups = [None] + ([0] if rng.random() < 0.3 else [])
    sims = [{"sid": f"S{i}", "type": "hybrid", "group": rng.randrange(len(groups)), "n_ent": 2,
             "meta_style": 0, "transport": "gated",
             "beh": {"bseed": rng.randrange(1 << 30), "p_self": 0.0, "p_out": 0.3, "loop_len": 1}} for i in range(n)]
    conns = []
    p_shift = rng.choice([0.6, 0.9, 1.0])
    for a in range(n):
        for b in range(n):
            if rng.random() < p_shift:
                conns.append({"src": a, "se": 0, "dst": b, "de": 1, "pairs": [["e_out", "t_in"]],
                              "shift": rng.choice([1, 1, 2]), "weak": False})
    order = list(range(n))
    rng.shuffle(order)
    ring = rng.random() < 0.5
    m = n if ring else rng.randrange(1, n)
    for i in range(m if ring else m - 1):
        a, b = order[i], order[(i + 1) % n]
        conns.append({"src": a, "se": 1, "dst": b, "de": 0, "pairs": [["e_out", "t_in"]], "shift": 0, "weak": False})
    for _ in range(rng.choice([0, 1, 2])):      # a few extra forward plain edges (never closing a cycle)
        i, j = sorted(rng.sample(range(n), 2))
        conns.append({"src": order[i], "se": 1, "dst": order[j], "de": 0, "pairs": [["p_out", "t_in"]],
                      "shift": 0, "weak": False})
    rng.shuffle(conns)
    # drop duplicates of (src entity, dst entity, dst attr)
    seen, out = set(), []
    for c in conns:
        k = (c["src"], c["se"], c["dst"], c["de"], c["pairs"][0][1])
        if k not in seen:
            seen.add(k)
            out.append(c)
    cfg = {"cache": True, "lazy": True, "debug": False, "mli": 6,
           "start_seed": None, "connect_seed": None, "order_seed": None}
    return {"groups": groups, "sims": sims, "conns": out, "until": 1, "config": cfg}


def gen_graph(seed: int, tier: str = "quick") -> Dict[str, Any]:
    rng = random.Random(sub_seed(seed, "graph"))
    feats = {"groups": rng.random() < 0.75, "siblings": rng.random() < 0.6}
    groups = gen_groups(rng, feats)
    n = rng.choice([1, 2, 2, 3, 3, 3, 4, 4, 5])
    sims = []
    for i in range(n):
        sims.append({"sid": f"S{i}", "type": "hybrid", "group": rng.randrange(len(groups)),
                     "n_ent": 2, "meta_style": rng.choice([0, 0, 1, 2]), "transport": "gated",
                     "beh": {"bseed": rng.randrange(1 << 30), "p_self": 0.0, "p_out": 0.5,
                             "loop_len": 1}})
    paths = group_paths({"groups": groups})
    conns: List[Dict[str, Any]] = []
    used = set()
    # bias: build 0-3 cycles explicitly, then sprinkle extra edges
    edges = []
    for _ in range(rng.choice([0, 1, 1, 1, 2, 2, 3])):
        r = rng.choice([1, 2, 2, 3, 3, 4])
        nodes = rng.sample(range(n), min(r, n))
        r = len(nodes)
        closer = rng.randrange(r) if rng.random() < 0.85 else -1   # this hop tries to resolve
        for i in range(r):
            edges.append((nodes[i], nodes[(i + 1) % r], "resolve" if i == closer else "plainish"))
    for _ in range(rng.choice([0, 0, 1, 1, 2])):
        edges.append((rng.randrange(n), rng.randrange(n), "any"))
    rng.shuffle(edges)
    for (a, b, how) in edges[:9]:
        sa, sb = sims[a], sims[b]
        se, de = rng.randrange(2), rng.randrange(2)
        if a == b and se == de:
            de = 1 - se
        ua = rng.choice(["p_out", "e_out"])
        va = rng.choice(["m_in", "t_in"])
        if (a, se, b, de, va) in used:
            continue
        cl = common_len(paths[sa["group"]], paths[sb["group"]])
        if how == "resolve":
            kind = rng.choice(["shift", "shift", "weak", "weak", "weak"])
        elif how == "plainish":
            kind = rng.choice(["plain", "plain", "plain", "plain", "plain", "async", "weak"])
        else:
            kind = rng.choice(["plain", "plain", "plain", "shift", "weak", "weak", "async", "shift+async"])
        shift, weak, asy = 0, False, False
        if "shift" in kind:
            shift = rng.choice([1, 1, 2])
        if kind == "weak":
            if cl >= 2 or rng.random() < 0.1:
                weak = True            # (10%: an illegal weak connection, must be rejected)
            elif how == "resolve":
                shift = 1
        if "async" in kind:
            asy = True
        c = {"src": a, "se": se, "dst": b, "de": de, "pairs": [[ua, va]], "shift": shift, "weak": weak}
        if asy:
            c["async"] = True
            if rng.random() < 0.3:
                c["pairs"] = []
        if (shift or weak) and (va == "m_in" or rng.random() < 0.5) and c["pairs"]:
            c["init"] = {ua: f"init{len(conns)}"}
        used.add((a, se, b, de, va))
        conns.append(c)
    if rng.random() < 0.3:
        # attempts that connect() must refuse (unknown attribute, or missing initial data), e.g. the
        # plain version of a connection that is then made time-shifted or weak: a refused call
        # leaves nothing behind that the cycle check could see
        for _ in range(rng.choice([1, 1, 2])):
            if conns and rng.random() < 0.7:
                base = rng.choice(conns)
                a, b, se, de = base["src"], base["dst"], base["se"], base["de"]
            else:
                a, b, se, de = rng.randrange(n), rng.randrange(n), rng.randrange(2), rng.randrange(2)
            if a == b and se == de:
                continue
            bad = {"src": a, "se": se, "dst": b, "de": de, "shift": 0, "weak": False, "refused": True}
            if rng.random() < 0.5:
                bad["pairs"] = [[rng.choice(["p_out", "e_out"]), "zz_in"]] if rng.random() < 0.5 else \
                    [["zz_out", rng.choice(["m_in", "t_in"])]]
            else:
                bad["pairs"] = [["p_out", "m_in"]]       # non-trigger input ...
                bad["shift"] = 1                          # ... time-shifted, without initial data
                if (a, se, b, de, "m_in") in used:
                    continue
            conns.insert(rng.randrange(len(conns) + 1), bad)
    cfg = {"cache": rng.random() < 0.5, "lazy": rng.random() < 0.5, "debug": False, "mli": 6,
           "start_seed": None, "connect_seed": None, "order_seed": None}
    return {"groups": groups, "sims": sims, "conns": conns, "until": rng.choice([1, 2]), "config": cfg}


# ---------------------------------------------------------------------------------
# C11: scenarios with illegal connect() calls and sibling-group placements
def gen_config(seed: int, tier: str = "quick") -> Dict[str, Any]:
    rng = random.Random(sub_seed(seed, "config"))
    force = {"groups": rng.random() < 0.8, "siblings": True, "weak": True, "shift": True}
    sc = gen_core(seed, tier, force=force, transport_mix="local")
    sims = sc["sims"]
    n = len(sims)
    paths = group_paths(sc)
    for s in sims:
        if rng.random() < 0.2:
            s["any_inputs"] = True
            s["meta_style"] = s.get("meta_style", 0) if (s["type"] == "hybrid" and s.get("meta_style", 0) in (0, 1)) else 0
    # child entities of another model (attributes renamed with the prefix c): an entity is
    # validated against its own model, not against its parent's
    kids = rng.random() < 0.35
    if kids:
        for s in sims:
            if rng.random() < 0.6 and not s.get("any_inputs"):
                s["child"] = True
        for c in sc["conns"]:
            if c.get("async"):
                continue
            if sims[c["src"]].get("child") and rng.random() < 0.4:
                c["sc"] = True
                c["pairs"] = [["c" + p[0], p[1]] for p in c["pairs"]]
                if c.get("init") is not None:
                    c["init"] = {"c" + k_: v_ for k_, v_ in c["init"].items()}
            if sims[c["dst"]].get("child") and rng.random() < 0.4:
                c["dc"] = True
                if rng.random() < 0.5:
                    c["pairs"] = [[p[0], "c" + p[1]] for p in c["pairs"]]
                # (else: an input name that parent and child share)
    illegal = []
    for _ in range(rng.choice([1, 1, 2, 3])):
        a, b = rng.randrange(n), rng.randrange(n)
        if a == b and n > 1:
            continue
        sa, sb = sims[a], sims[b]
        se, de = rng.randrange(sa["n_ent"]), rng.randrange(sb["n_ent"])
        if a == b:
            if sa["n_ent"] < 2:
                continue
            de = 1 - se
        ua = rng.choice(OUTS[sa["type"]])
        va = rng.choice(INS[sb["type"]])
        kind = rng.choice(["src_attr", "dst_attr", "no_init", "weak_root", "multi", "weak_sibling"])
        c = {"src": a, "se": se, "dst": b, "de": de, "pairs": [[ua, va]], "shift": 0, "weak": False,
             "illegal_kind": kind}
        cl = common_len(paths[sa["group"]], paths[sb["group"]])
        if kind == "src_attr":
            c["pairs"] = [["zz_out", va]]
        elif kind == "dst_attr":
            c["pairs"] = [[ua, "zz_in"]]
        elif kind == "no_init":
            c["shift"] = rng.choice([0, 1, 2])
            c["weak"] = (cl >= 2 and rng.random() < 0.5) or c["shift"] == 0
            # no initial data although the destination may be a non-trigger input
        elif kind in ("weak_root", "weak_sibling"):
            c["weak"] = True
            c["init"] = {ua: "initW"}
        elif kind == "multi":
            c["pairs"] = [[ua, va], ["zz_out", va if len(INS[sb["type"]]) < 2 else [x for x in INS[sb["type"]] if x != va][0]],
                          [ua, "zz_in"]]
            c["shift"] = rng.choice([0, 1])
            if c["shift"]:
                c["init"] = {ua: "initM"}
        if kids and rng.random() < 0.6:
            # the attribute exists, but in the model of the parent resp. of the child
            which = rng.choice(["src_child_parent_attr", "src_parent_child_attr", "dst_parent_child_attr"])
            ok = True
            c = {"src": a, "se": se, "dst": b, "de": de, "pairs": [[ua, va]], "shift": 0, "weak": False,
                 "illegal_kind": which}
            if which == "src_child_parent_attr" and sa.get("child"):
                c["sc"] = True
            elif which == "src_parent_child_attr" and sa.get("child"):
                c["pairs"] = [["c" + ua, va]]
            elif which == "dst_child_parent_attr" and sb.get("child"):
                c["dc"] = True
            elif which == "dst_parent_child_attr" and sb.get("child") and not sb.get("any_inputs"):
                c["pairs"] = [[ua, "c" + va]]
            else:
                ok = False
            if ok:
                illegal.append(c)
                continue
        illegal.append(c)
    # insert at random positions
    for c in illegal:
        sc["conns"].insert(rng.randrange(len(sc["conns"]) + 1), c)
    # remove accidental carve-out 1 duplicates
    seen = set()
    conns = []
    for c in sc["conns"]:
        pairs = []
        for p in c["pairs"]:
            k = (c["src"], c.get("se", 0), bool(c.get("sc")), c["dst"], c.get("de", 0), bool(c.get("dc")), p[1])
            if k in seen:
                continue
            seen.add(k)
            pairs.append(p)
        if pairs or c.get("async"):
            c["pairs"] = pairs
            conns.append(c)
    sc["conns"] = conns
    sc["config"]["debug"] = False
    repair_cycles(sc, rng)
    for c in sc["conns"]:
        # initial data whose value is None is initial data all the same
        if c.get("init") and rng.random() < 0.12:
            k_ = rng.choice(sorted(c["init"]))
            c["init"] = dict(c["init"], **{k_: None})
    return sc


# ---------------------------------------------------------------------------------
# C09: same-time loops around the max_loop_iterations bound
def gen_loop(seed: int, tier: str = "quick") -> Dict[str, Any]:
    rng = random.Random(sub_seed(seed, "loop"))
    deep = rng.random() < 0.4
    cross = (not deep) and rng.random() < 0.3
    if cross:
        # the loop runs on the tier of group 1 while its members sit in two sub-groups of it
        groups = [None, 0, 1, 1]
    else:
        groups = [None, 0, 1] if deep else [None, 0]
    if rng.random() < 0.3:
        groups.append(0)                       # a sibling group
    G = 2 if deep else 1
    M = rng.choice([1, 2, 3, 4, 5, 6])
    nmem = rng.choice([2, 2, 3])
    L = rng.choice([max(0, M - 3), max(0, M - 2), max(0, M - 2), max(0, M - 1), max(0, M - 1),
                    max(0, M - 1), M, M, M + 1, M + 2, None])
    sims = []
    for i in range(nmem):
        typ = rng.choice(["hybrid", "event-based"])
        beh = {"bseed": rng.randrange(1 << 30), "p_self": 0.0, "self_d": 1, "p_out": 1.0,
               "loop_len": None}
        s = {"sid": f"L{i}", "type": typ, "group": (2 + i % 2) if cross else G, "n_ent": 1, "meta_style": 0,
             "transport": pick_weighted(rng, TRANSPORT_MIXES["mixed"]), "beh": beh}
        if rng.random() < 0.1:
            beh["p_none"] = rng.choice([0.5, 1.0])     # loop messages without payload (value None)
        if i != 0 and rng.random() < 0.25:
            # a member that dates (some of) its outputs into the next time step(s)
            beh["future"] = True
            beh["p_future"] = rng.choice([0.3, 0.6, 1.0])
        if i == 0:
            beh["loop_len"] = L
            beh["p_self"] = rng.choice([1.0, 1.0, 0.5])
            beh["self_d"] = rng.choice([1, 1, 2])
            if typ == "event-based":
                s["init_event"] = 0
        elif typ == "event-based":
            s["init_event"] = None
        sims.append(s)
    conns = []
    for i in range(nmem):
        j = (i + 1) % nmem
        conns.append({"src": i, "se": 0, "dst": j, "de": 0, "pairs": [["e_out", "t_in"]],
                      "shift": 0, "weak": (j == 0) or (cross and rng.random() < 0.5)})
    settled = (not cross) and L is not None and rng.random() < 0.15
    if settled:
        # member 0 announces "settled" once per time step (in the step after its last loop output)
        # on a second entity; the signal starts the next time step of member 1 over a time-shifted
        # connection inside the group
        sims[0]["n_ent"] = 2
        sims[1]["n_ent"] = 2
        sims[0]["beh"]["final_e1"] = True
        sims[0]["beh"]["p_self"] = rng.choice([0.0, 0.0, 1.0])
        conns.append({"src": 0, "se": 1, "dst": 1, "de": 1, "pairs": [["e_out", "t_in"]],
                      "shift": rng.choice([1, 1, 2]), "weak": False})
    if (not settled) and (not cross) and rng.random() < 0.2:
        # the member that closes the loop also triggers member 0 over a second, time-shifted connection
        # (two trigger connections between one pair, with different delays; either may be made first)
        sims[0]["n_ent"] = 2
        conns.append({"src": nmem - 1, "se": 0, "dst": 0, "de": 1, "pairs": [["e_out", "t_in"]],
                      "shift": rng.choice([1, 1, 2]), "weak": False})
    # hybrids on the loop step at time 0 by themselves; make their persistent output harmless
    # extras
    for x in range(rng.choice([0, 1, 1, 2])):
        typ = rng.choice(TYPES)
        g = rng.choice(list(range(len(groups))))
        idx = len(sims)
        s = {"sid": f"X{x}", "type": typ, "group": g, "n_ent": 1, "meta_style": 0,
             "transport": pick_weighted(rng, TRANSPORT_MIXES["mixed"]),
             "beh": gen_beh(rng, typ, {"future": False, "react": False})}
        if typ == "event-based":
            s["init_event"] = rng.choice([None, 0])
        if typ != "time-based":
            s["beh"]["p_self"] = rng.choice([0.0, 0.5])
        sims.append(s)
        m = rng.randrange(nmem)
        if rng.random() < 0.6:
            # consumer of a loop member
            ua = rng.choice(OUTS[sims[m]["type"]])
            va = rng.choice(INS[typ])
            conns.append({"src": m, "se": 0, "dst": idx, "de": 0, "pairs": [[ua, va]], "shift": 0, "weak": False})
        else:
            # producer for a loop member's non-trigger input (hybrid members only) or a
            # time-shifted trigger
            ua = rng.choice(OUTS[typ])
            if sims[m]["type"] == "hybrid":
                conns.append({"src": idx, "se": 0, "dst": m, "de": 0, "pairs": [[ua, "m_in"]], "shift": 0, "weak": False})
            else:
                conns.append({"src": idx, "se": 0, "dst": m, "de": 0, "pairs": [[ua, "t_in"]], "shift": 1, "weak": False})
    cfg = {"cache": rng.random() < 0.5, "lazy": rng.random() < 0.6, "debug": rng.random() < 0.1, "mli": M,
           "start_seed": rng.choice([None, rng.randrange(1 << 30)]),
           "connect_seed": rng.choice([None, rng.randrange(1 << 30)]),
           "order_seed": rng.choice([None, rng.randrange(1 << 30)]),
           "iteration_cost": rng.choice([0.0, 1e-5])}
    if rng.random() < 0.15:
        cfg["mli_late"] = True       # world.max_loop_iterations = M after the simulators were started
    sc = {"groups": groups, "sims": sims, "conns": conns, "until": rng.choice([1, 2, 3, 4]),
          "config": cfg, "loop": {"M": M, "L": L, "members": nmem, "tier": 2 if deep else 1,
                                  "cross_subgroups": cross}}
    if rng.random() < 0.3:
        sc["until"] = rng.choice([6, 7, 8])      # more time steps than max_loop_iterations
    if settled:
        sc["loop"]["settled_signal"] = True
        sc["until"] = max(sc["until"], rng.choice([3, 4, 6]))
    repair_cycles(sc, rng)
    return sc


# ---------------------------------------------------------------------------------
# C16: a plant with async_requests connections to set_data/get_data agents
def gen_async(seed: int, tier: str = "quick") -> Dict[str, Any]:
    rng = random.Random(sub_seed(seed, "async"))
    k = rng.choice([1, 1, 2, 2, 3])
    a_type = rng.choice(["time-based", "time-based", "hybrid"])
    A = {"sid": "A", "type": a_type, "group": 0, "n_ent": rng.choice([1, 2]), "meta_style": 0,
         "transport": rng.choice(["gated", "gated", "stock", "remote", "cmd"]),
         "beh": {"bseed": rng.randrange(1 << 30), "step_sizes": [rng.choice([1, 1, 2, 3, 4])]}}
    if a_type == "hybrid":
        A["beh"] = {"bseed": rng.randrange(1 << 30), "p_self": 1.0, "self_d": rng.choice([1, 2, 3]),
                    "p_out": 0.6, "loop_len": 1}
    sims = [A]
    conns = []
    for i in range(k):
        calls = []
        for j in range(rng.choice([1, 1, 2, 3])):
            kind = rng.choice(["set_data", "set_data", "set_data", "get_data", "get_progress",
                               "get_related_entities"])
            if kind == "set_data":
                calls.append({"kind": "set_data", "p": rng.choice([0.3, 0.7, 1.0]), "src_eid": "e0",
                              "dst": f"A.e{rng.randrange(A['n_ent'])}", "attr": "m_in"})
                if rng.random() < 0.3:
                    calls[-1]["also_src_eid"] = "e1"       # (the agent simulator gets two entities)
            elif kind == "get_data":
                calls.append({"kind": "get_data", "p": rng.choice([0.5, 1.0]),
                              "dst": f"A.e{rng.randrange(A['n_ent'])}", "attrs": ["p_out"]})
            else:
                calls.append({"kind": kind, "p": 0.5})
        B = {"sid": f"B{i}", "type": "time-based", "group": 0,
             "n_ent": 2 if any(c.get("also_src_eid") for c in calls) else 1, "meta_style": 0,
             "stub": "async", "transport": rng.choice(["gated", "gated", "stock", "remote", "cmd"]),
             "beh": {"bseed": rng.randrange(1 << 30), "step_sizes": [rng.choice([1, 1, 2, 3, 4])],
                     "async_calls": calls}}
        sims.append(B)
        c = {"src": 0, "se": rng.randrange(A["n_ent"]), "dst": len(sims) - 1, "de": 0,
             "pairs": [["p_out", "m_in"]], "shift": 0, "weak": False, "async": True}
        if rng.random() < 0.2:
            # the data connection itself is time-shifted; async_requests still ties the agent to A
            c["shift"] = 1
            c["init"] = {"p_out": f"initA{i}"}
        conns.append(c)
    if rng.random() < 0.3:
        # an agent that is not time-based: its steps are demanded by a sensor (possibly lagging behind
        # the plant), the plant is tied to it by async_requests only
        i = rng.randrange(1, k + 1)
        Bx = sims[i]
        Bx["type"] = rng.choice(["event-based", "hybrid"])
        Bx["beh"] = {"bseed": rng.randrange(1 << 30), "p_self": rng.choice([0.0, 0.0, 0.3]), "self_d": rng.choice([1, 2]),
                     "p_out": 0.5, "loop_len": 1, "async_calls": Bx["beh"]["async_calls"]}
        if Bx["type"] == "event-based":
            Bx["init_event"] = rng.choice([None, None, 0])
        S = {"sid": "S", "type": "time-based", "group": 0, "n_ent": 1, "meta_style": 0,
             "transport": rng.choice(["gated", "remote", "remote", "cmd"]),
             "beh": {"bseed": rng.randrange(1 << 30), "step_sizes": [rng.choice([1, 1, 2, 3])]}}
        sims.append(S)
        conns.append({"src": len(sims) - 1, "se": 0, "dst": i, "de": 0, "pairs": [["p_out", "t_in"]],
                      "shift": rng.choice([0, 0, 1]), "weak": False})
        c0 = conns[i - 1]
        if rng.random() < 0.6:
            c0["pairs"] = []                      # async_requests only, no data from the plant
            c0["shift"] = 0
            c0.pop("init", None)
        elif Bx["type"] == "hybrid":
            pass                                  # p_out -> m_in (non-trigger)
        else:
            c0["pairs"] = [["p_out", "t_in"]]     # the plant triggers the agent too
            c0["shift"] = 0
            c0.pop("init", None)
        Bx["n_ent"] = max(Bx["n_ent"], 1)
    if rng.random() < 0.3:
        # somebody else feeds the attribute the agents write to, over an ordinary connection
        D = {"sid": "D", "type": "time-based", "group": 0, "n_ent": 1, "meta_style": 0,
             "transport": rng.choice(["gated", "stock", "remote"]),
             "beh": {"bseed": rng.randrange(1 << 30), "step_sizes": [rng.choice([1, 2, 3])]}}
        sims.append(D)
        conns.append({"src": len(sims) - 1, "se": 0, "dst": 0, "de": rng.randrange(A["n_ent"]),
                      "pairs": [["p_out", "m_in"]], "shift": 0, "weak": False})
    illegal = None
    if rng.random() < 0.35:
        # a third simulator without async connection, or a missing flag
        how = rng.choice(["third_sim", "other_agent", "no_flag", "reverse"])
        b = rng.randrange(1, k + 1)
        if how == "reverse":
            # the plant itself asks one of its agents: async_requests is enabled for plant -> agent
            # only, the way back is an ordinary (time-shifted) connection
            ua_ = "e_out" if sims[b]["type"] == "event-based" else "p_out"
            # (from an entity of its own, so that its values do not share a key with set_data values)
            sims[b]["n_ent"] = 3
            conns.append({"src": b, "se": 2, "dst": 0, "de": rng.randrange(A["n_ent"]), "pairs": [[ua_, "m_in"]],
                          "shift": 1, "weak": False, "init": {ua_: "initBack"}})
            A["stub"] = "async"
            A["beh"]["async_calls"] = []
            target = f"{sims[b]['sid']}.e0"
            b = 0
        elif how == "third_sim":
            C = {"sid": "C", "type": "time-based", "group": 0, "n_ent": 1, "meta_style": 0,
                 "transport": rng.choice(["gated", "stock", "remote"]),
                 "beh": {"bseed": rng.randrange(1 << 30), "step_sizes": [rng.choice([1, 2])]}}
            sims.append(C)
            conns.append({"src": len(sims) - 1, "se": 0, "dst": b, "de": 0, "pairs": [["p_out", "m_in"]]
                          if False else [["p_out", "m_in"]], "shift": 0, "weak": False})
            # (C feeds the agent over an ordinary connection, without async_requests)
            # avoid carve-out 1: the agent's m_in already has A.e? as a source; C.e0 is another source
            target = "C.e0"
        elif how == "other_agent" and k > 1:
            o = rng.choice([x for x in range(1, k + 1) if x != b])
            target = f"{sims[o]['sid']}.e0"
        else:
            how = "no_flag"
            conns[b - 1]["async"] = False
            target = f"A.e{rng.randrange(A['n_ent'])}"
            # every request of this agent towards A is now illegal: keep only untargeted ones
            sims[b]["beh"]["async_calls"] = [c for c in sims[b]["beh"]["async_calls"]
                                             if c["kind"] in ("get_progress", "get_related_entities")]
        kind = rng.choice(["set_data", "get_data"])
        call = {"kind": kind, "p": 1.0 if rng.random() < 0.5 else 0.5, "illegal": how}
        if rng.random() < 0.5:
            # not before other agents had the chance to make legal requests
            call["from_time"] = rng.choice([1, 2, 3])
        if kind == "set_data":
            call.update({"src_eid": "e0", "dst": target, "attr": "m_in"})
        else:
            call.update({"dst": target, "attrs": ["p_out"]})
        sims[b]["beh"]["async_calls"].append(call)
        illegal = {"agent": sims[b]["sid"], "how": how, "target": target, "kind": kind}
    if rng.random() < 0.25:
        # a second plant that shares one of the agents: async_requests is a matter of the (plant, agent)
        # pair, not of the agent alone
        j = rng.randrange(1, k + 1)
        A2 = {"sid": "A2", "type": "time-based", "group": 0, "n_ent": 1, "meta_style": 0,
              "transport": rng.choice(["gated", "gated", "stock", "remote"]),
              "beh": {"bseed": rng.randrange(1 << 30), "step_sizes": [rng.choice([1, 1, 2, 3])]}}
        sims.append(A2)
        c2 = {"src": len(sims) - 1, "se": 0, "dst": j, "de": 0, "pairs": [["p_out", "m_in"]],
              "shift": 0, "weak": False, "async": True}
        if sims[j]["type"] == "event-based" or rng.random() < 0.4:
            c2["pairs"] = []                      # async_requests only
        conns.append(c2)
        sims[j]["beh"]["async_calls"].insert(
            rng.randrange(len(sims[j]["beh"]["async_calls"]) + 1),
            {"kind": "set_data", "p": rng.choice([0.5, 1.0]), "src_eid": "e0", "dst": "A2.e0", "attr": "m_in"})
        if rng.random() < 0.4:
            sims[j]["beh"]["async_calls"].append({"kind": "get_data", "p": 0.7, "dst": "A2.e0", "attrs": ["p_out"]})
    cfg = {"cache": rng.random() < 0.5, "lazy": rng.random() < 0.5, "debug": False, "mli": 100,
           "start_seed": rng.choice([None, rng.randrange(1 << 30)]), "connect_seed": None,
           "order_seed": None, "iteration_cost": rng.choice([0.0, 1e-5])}
    groups = [None]
    if rng.random() < 0.25:
        # the whole plant/agent ensemble inside one simulator group (or the agents in a sub-group)
        groups = [None, 0]
        for s in sims:
            s["group"] = 1
        if rng.random() < 0.3:
            groups.append(1)
            for s in sims[1:k + 1]:
                s["group"] = 2
        elif a_type == "hybrid" and rng.random() < 0.6:
            # the plant is re-stepped within one time step by a same-time loop with a partner
            Q = {"sid": "Q", "type": "event-based", "group": 1, "n_ent": 1, "meta_style": 0, "init_event": None,
                 "transport": rng.choice(["gated", "stock", "remote"]),
                 "beh": {"bseed": rng.randrange(1 << 30), "p_self": 0.0, "p_out": 1.0, "loop_len": None}}
            sims.append(Q)
            qi = len(sims) - 1
            A["beh"]["p_out"] = 1.0
            A["beh"]["loop_len"] = rng.choice([1, 2])
            conns.append({"src": 0, "se": 0, "dst": qi, "de": 0, "pairs": [["e_out", "t_in"]], "shift": 0, "weak": False})
            conns.append({"src": qi, "se": 0, "dst": 0, "de": 0, "pairs": [["e_out", "t_in"]], "shift": 0, "weak": True})
    return {"groups": groups, "sims": sims, "conns": conns, "until": rng.choice([2, 3, 4, 5, 6, 8]),
            "config": cfg, "illegal_async": illegal}


# ---------------------------------------------------------------------------------
# C17: real-time scenarios on the virtual clock
def gen_rt(seed: int, tier: str = "quick") -> Dict[str, Any]:
    rng = random.Random(sub_seed(seed, "rt"))
    dyadic = rng.random() < 0.8
    f = rng.choice([0.25, 0.5, 1.0, 2.0]) if dyadic else rng.choice([0.1, 0.3])
    tr = rng.choice([0.5, 1.0, 2.0]) if dyadic else rng.choice([1.0, 0.1])
    n = rng.choice([1, 2, 2, 3])
    use_groups = rng.random() < 0.3
    groups = [None, 0] if use_groups else [None]
    sims = []
    for i in range(n):
        typ = rng.choice(["time-based", "time-based", "hybrid", "event-based"])
        s = {"sid": f"S{i}", "type": typ, "group": rng.randrange(len(groups)), "n_ent": 1,
             "meta_style": 0, "transport": rng.choice(["gated", "gated", "stock", "remote", "cmd"]),
             "beh": gen_beh(rng, typ, {"future": False, "react": False})}
        if typ == "time-based":
            s["beh"]["step_sizes"] = [rng.choice([1, 1, 2])]
            s["beh"]["vary"] = False
        if typ == "event-based":
            s["init_event"] = rng.choice([None, 0, 1])
        sims.append(s)
    conns = []
    for _ in range(rng.choice([0, 1, 1, 2])):
        if n < 2:
            break
        a, b = rng.sample(range(n), 2)
        ua = rng.choice(OUTS[sims[a]["type"]])
        va = rng.choice(INS[sims[b]["type"]])
        if any(c["src"] == a and c["dst"] == b and c["pairs"][0][1] == va for c in conns):
            continue
        shift = rng.choice([0, 0, 1])
        c = {"src": a, "se": 0, "dst": b, "de": 0, "pairs": [[ua, va]], "shift": shift, "weak": False}
        if use_groups and sims[a]["group"] == sims[b]["group"] == 1 and rng.random() < 0.4:
            c["weak"] = True        # same-time interaction in real-time mode
        if (shift or c["weak"]) and va == "m_in":
            c["init"] = {ua: f"init{len(conns)}"}
        conns.append(c)
    until = rng.choice([2, 3, 4, 5, 6])
    period = f * tr
    # external events from remote stubs
    ev_mode = rng.random()
    for s in sims:
        if s["transport"] in ("remote", "cmd") and ev_mode < 0.6 and s["type"] != "time-based":
            evs = []
            at = 0.0
            for _ in range(rng.choice([1, 2, 3])):
                at += period * rng.choice([0.25, 0.5, 1.0, 1.5])
                k = rng.choice(["future", "future", "future", "until", "beyond"])
                if k == "future":
                    evs.append({"at": at, "kind": "future", "dt": rng.choice([0, 0, 1, 2])})
                else:
                    evs.append({"at": at, "kind": k, "t": until if k == "until" else until + 2})
            s["events"] = evs
            s["set_events"] = True
    for s in sims:
        if s["transport"] in ("gated", "stock") and rng.random() < 0.25:
            # an in-process simulator (of any type) that sets events for itself from inside step()
            s["stub"] = "async"
            s["beh"]["async_calls"] = [{"kind": "set_event", "p": rng.choice([0.3, 0.6]),
                                        "t": rng.choice([1, 2, 3]), "reraise": True}]
    blocking = False
    for s in sims:
        if s["transport"] in ("gated", "stock") and rng.random() < 0.2:
            # computes synchronously for up to a few periods (blocks mosaik's event loop)
            s["beh"]["block"] = rng.choice([[0, period / 2], [0, 0, 1.5 * period], [3.5 * period, 0, 0, 0]])
            blocking = True
    durations = rng.choice([[0.0], [0.0], [0.0, period / 4], [0.0, period / 4, period / 2],
                            [0.0, period / 2, period, 3 * period]])
    sched = {"profile": "uniform", "seed": rng.randrange(1 << 30), "unit": 1.0, "choices": durations}
    import math
    for s in sims:
        if s.get("events"):
            # with instantaneous links the tick that is current *now* (in mosaik's ceil reading) is
            # still in the future unless the call lands exactly on a tick boundary
            slack = 0 if (max(durations) == 0 and not blocking) else 2
            s["rt"] = {"period": period, "until": until,
                       "margin": slack + math.ceil(max(durations) / period)}
    # durations apply to setup_done/step/get_data, not to the init/create handshake (a slow
    # handshake legitimately runs into start_timeout)
    zeroed = []
    for i, s in enumerate(sims):
        for nm in (s["sid"], f"node{i}"):
            for o in (0, 1, 2):
                zeroed += [f"{nm}/{o}/xreq", f"{nm}/{o}/xrep"]
    sched["zeroed"] = zeroed
    if durations != [0.0] and rng.random() < 0.3:
        s = rng.choice(sims)
        if s["transport"] in ("remote", "cmd"):
            sched["overrides"] = {f"{s['sid']}/{rng.choice([4, 5, 6])}/xrep": 5 * period}
        else:
            sched["overrides"] = {f"{s['sid']}/{rng.choice([1, 2, 3])}/rep": 5 * period}   # one long stall
    rt_on = rng.random() < 0.9
    cfg = {"cache": rng.random() < 0.5, "lazy": rng.random() < 0.7, "debug": False, "mli": 100,
           "start_seed": None, "connect_seed": None, "order_seed": None, "iteration_cost": 0.0,
           "time_resolution": tr, "rt_factor": f if rt_on else None, "rt_strict": rng.random() < 0.3}
    if rng.random() < 0.2:
        cfg["setup_gap"] = period * rng.choice([0.5, 2, 5])     # time passes between start() and run()
    sc = {"groups": groups, "sims": sims, "conns": conns, "until": until, "config": cfg,
          "rt": {"f": f, "tr": tr, "dyadic": dyadic, "durations": durations, "blocking": blocking}}
    repair_cycles(sc, rng)
    return {"scenario": sc, "schedule": sched}


# ---------------------------------------------------------------------------------
# a topology family the random generator rarely hits: an ancestor that iterates in a weak loop
# reaches a group-mate over two paths - one inside the group, one that leaves it and re-enters -
# whose delays have the same (or nearly the same) tiers
def gen_twopath(seed: int, tier: str = "quick") -> Dict[str, Any]:
    rng = random.Random(sub_seed(seed, "twopath"))
    outside_group = rng.random() < 0.3
    groups = [None, 0] + ([0] if outside_group else [])
    deep = rng.random() < 0.25
    if deep:
        groups.append(1)          # Y (and sometimes Z) one level deeper
    def mk(sid, typ, group, **beh):
        b = {"bseed": rng.randrange(1 << 30), "p_self": 0.0, "self_d": 1, "p_out": 1.0, "loop_len": 1}
        b.update(beh)
        s = {"sid": sid, "type": typ, "group": group, "n_ent": 2, "meta_style": 0,
             "transport": pick_weighted(rng, TRANSPORT_MIXES["mixed"]), "beh": b}
        if typ == "event-based":
            s["init_event"] = None
        return s
    X = mk("X", rng.choice(["event-based", "hybrid"]), 1, p_out=rng.choice([0.5, 0.7, 1.0]),
           loop_len=rng.choice([2, 3, 3, 4]), p_self=rng.choice([0.0, 0.5, 1.0]))
    if X["type"] == "event-based":
        X["init_event"] = 0
    Z = mk("Z", "event-based", 1, loop_len=None)
    Y = mk("Y", rng.choice(["event-based", "hybrid"]), (len(groups) - 1) if deep else 1,
           p_out=rng.choice([0.0, 0.5]))
    R = mk("R", rng.choice(["event-based", "hybrid"]), 2 if outside_group else 0, loop_len=None)
    sims = [X, Z, Y, R]
    k1 = rng.choice([0, 1, 1, 2])
    k2 = k1 if rng.random() < 0.7 else rng.choice([0, 1, 2])
    conns = [
        {"src": 0, "se": 0, "dst": 1, "de": 0, "pairs": [["e_out", "t_in"]], "shift": 0, "weak": False},
        {"src": 1, "se": 0, "dst": 0, "de": 0, "pairs": [["e_out", "t_in"]], "shift": 0, "weak": True},
        {"src": 0, "se": 1, "dst": 2, "de": 0, "pairs": [["e_out", "t_in"]], "shift": k1,
         "weak": (k1 == 0 and rng.random() < 0.5)},
        {"src": 0, "se": rng.choice([0, 1]), "dst": 3, "de": 0, "pairs": [["e_out", "t_in"]], "shift": 0, "weak": False},
        {"src": 3, "se": 0, "dst": 2, "de": 1, "pairs": [["e_out", "t_in"]], "shift": k2, "weak": False},
    ]
    if rng.random() < 0.35:
        # the detour runs through two simulators outside the group: X -> R -> R2 -> Y
        R2 = mk("R2", rng.choice(["event-based", "hybrid"]), 2 if (outside_group and rng.random() < 0.5) else 0,
                loop_len=None)
        sims.append(R2)
        conns[4] = {"src": 3, "se": 0, "dst": 4, "de": 0, "pairs": [["e_out", "t_in"]], "shift": 0, "weak": False}
        conns.append({"src": 4, "se": 0, "dst": 2, "de": 1, "pairs": [["e_out", "t_in"]], "shift": k2, "weak": False})
    if rng.random() < 0.3:
        # a consumer of Y outside, or a feedback from Y into the loop over a shifted connection
        conns.append({"src": 2, "se": 0, "dst": 0, "de": 1, "pairs": [["e_out", "t_in"]], "shift": 1, "weak": False})
    if rng.random() < 0.5:
        # a self-scheduled consumer of Y (waiting to step while the loop iterates)
        W = {"sid": "W", "type": "time-based", "group": rng.choice([0, 1, 1]), "n_ent": 1, "meta_style": 0,
             "transport": pick_weighted(rng, TRANSPORT_MIXES["mixed"]),
             "beh": {"bseed": rng.randrange(1 << 30), "step_sizes": [rng.choice([1, 1, 1, 2])]}}
        sims.append(W)
        Y["beh"]["p_out"] = rng.choice([0.5, 1.0])
        if rng.random() < 0.6:
            # both paths undelayed (equal tiers, different cutoff), the consumer a group-mate of Y
            W["group"] = Y["group"]
            for c_ in conns:
                if c_["dst"] == 2 or c_["src"] == 3 or (len(sims) > 5 and c_["src"] == 4):
                    c_["shift"], c_["weak"] = 0, False
            X["beh"]["p_out"] = rng.choice([0.5, 0.7])
        conns.append({"src": 2, "se": 0, "dst": len(sims) - 1, "de": 0, "pairs": [["e_out", "m_in"]],
                      "shift": 0, "weak": False})
    cfg = {"cache": rng.random() < 0.5, "lazy": rng.random() < 0.6, "debug": False, "mli": 8,
           "start_seed": rng.choice([None, rng.randrange(1 << 30)]),
           "connect_seed": rng.choice([None, rng.randrange(1 << 30)]),
           "order_seed": rng.choice([None, rng.randrange(1 << 30)]),
           "iteration_cost": rng.choice([0.0, 1e-5])}
    sc = {"groups": groups, "sims": sims, "conns": conns, "until": rng.choice([2, 3, 4, 5]),
          "config": cfg, "feats": {"twopath": True}}
    repair_cycles(sc, rng)
    return sc


# ---------------------------------------------------------------------------------
# another family the random generator rarely hits: a source reaches a simulator over two *trigger*
# paths of different length whose delays differ - the path with fewer hops is not the one with the
# smaller delay (direct time-shifted connection vs. a chain of undelayed relays) -, and a
# self-scheduled consumer hangs behind the join
def gen_diamond(seed: int, tier: str = "quick") -> Dict[str, Any]:
    rng = random.Random(sub_seed(seed, "diamond"))
    grouped = rng.random() < 0.3
    groups = [None, 0] if grouped else [None]
    g = 1 if grouped else 0

    def mk(sid, typ, **beh):
        if typ == "time-based":
            b = {"bseed": rng.randrange(1 << 30), "step_sizes": [rng.choice([1, 1, 2, 3])]}
        else:
            b = {"bseed": rng.randrange(1 << 30), "p_self": 0.0, "self_d": 1, "p_out": 1.0, "loop_len": 1}
        b.update(beh)
        s = {"sid": sid, "type": typ, "group": g if rng.random() < 0.85 else 0, "n_ent": 2, "meta_style": 0,
             "transport": pick_weighted(rng, TRANSPORT_MIXES["mixed"]), "beh": b}
        if typ == "event-based":
            s["init_event"] = None
        return s
    zt = rng.choice(["time-based", "event-based", "hybrid"])
    Z = mk("Z", zt) if zt == "time-based" else mk("Z", zt, p_self=1.0, self_d=rng.choice([1, 2, 3]),
                                                  p_out=rng.choice([0.6, 1.0]))
    if zt == "event-based":
        Z["init_event"] = 0
    zo = "p_out" if zt == "time-based" else "e_out"
    M = mk("M", rng.choice(["event-based", "event-based", "hybrid"]), p_out=rng.choice([0.7, 1.0]),
           p_self=rng.choice([0.0, 0.0, 0.4]))
    sims = [Z, M]
    n_relay = rng.choice([1, 1, 2])
    conns = []
    k_direct = rng.choice([1, 1, 2, 0])
    conns.append({"src": 0, "se": 0, "dst": 1, "de": 0, "pairs": [[zo, "t_in"]], "shift": k_direct, "weak": False})
    prev, prev_out = 0, zo
    k_chain = [0] * (n_relay + 1)
    if rng.random() < 0.3:
        k_chain[rng.randrange(n_relay + 1)] = rng.choice([1, 2])
    for i in range(n_relay):
        R = mk(f"A{i}", rng.choice(["event-based", "event-based", "hybrid"]), p_out=rng.choice([1.0, 1.0, 0.6]))
        sims.append(R)
        conns.append({"src": prev, "se": 1 if prev == 0 else 0, "dst": len(sims) - 1, "de": 0,
                      "pairs": [[prev_out, "t_in"]], "shift": k_chain[i], "weak": False})
        prev, prev_out = len(sims) - 1, "e_out"
    conns.append({"src": prev, "se": 0, "dst": 1, "de": 1, "pairs": [["e_out", "t_in"]], "shift": k_chain[n_relay],
                  "weak": False})
    # the consumer behind the join: self-scheduled (time-based) or triggered
    ct = rng.choice(["time-based", "time-based", "hybrid", "event-based"])
    C = mk("C", ct) if ct == "time-based" else mk("C", ct, p_self=rng.choice([0.0, 1.0]), p_out=0.5)
    if ct == "event-based":
        C["init_event"] = rng.choice([None, 0])
    sims.append(C)
    mo = "e_out"
    conns.append({"src": 1, "se": 0, "dst": len(sims) - 1, "de": 0,
                  "pairs": [[mo, "m_in" if ct == "time-based" else "t_in"]], "shift": 0, "weak": False})
    if rng.random() < 0.3:
        # somebody who keeps the scheduler busy independently of the diamond
        sims.append(mk("W", "time-based"))
    cfg = {"cache": rng.random() < 0.5, "lazy": rng.random() < 0.6, "debug": False, "mli": 100,
           "start_seed": rng.choice([None, rng.randrange(1 << 30)]),
           "connect_seed": rng.choice([None, rng.randrange(1 << 30)]),
           "order_seed": rng.choice([None, rng.randrange(1 << 30)]),
           "iteration_cost": rng.choice([0.0, 1e-5])}
    sc = {"groups": groups, "sims": sims, "conns": conns, "until": rng.choice([3, 4, 5, 6, 8]),
          "config": cfg, "feats": {"diamond": True}}
    repair_cycles(sc, rng)
    return sc


# ---------------------------------------------------------------------------------
# two trigger paths into a simulator of an *inner* group (three time tiers): one direct from the
# outer group, one that leaves all groups and re-enters, ending with a weak hop inside the inner
# group - the two delays agree on every tier up to the larger cutoff and differ only behind it
def gen_deeptail(seed: int, tier: str = "quick") -> Dict[str, Any]:
    rng = random.Random(sub_seed(seed, "deeptail"))
    groups = [None, 0, 1]            # G = 1, H = 2 inside G
    if rng.random() < 0.2:
        groups.append(0)             # a sibling of G for the detour

    def mk(sid, typ, group, **beh):
        if typ == "time-based":
            b = {"bseed": rng.randrange(1 << 30), "step_sizes": [rng.choice([1, 1, 2])]}
        else:
            b = {"bseed": rng.randrange(1 << 30), "p_self": 0.0, "self_d": 1, "p_out": 1.0, "loop_len": 1}
        b.update(beh)
        s = {"sid": sid, "type": typ, "group": group, "n_ent": 2, "meta_style": 0,
             "transport": pick_weighted(rng, TRANSPORT_MIXES["mixed"]), "beh": b}
        if typ == "event-based":
            s["init_event"] = None
        return s
    at = rng.choice(["time-based", "time-based", "hybrid", "event-based"])
    A = mk("A", at, 1) if at == "time-based" else mk("A", at, 1, p_self=1.0, self_d=rng.choice([1, 2]))
    if at == "event-based":
        A["init_event"] = 0
    ao = "p_out" if at == "time-based" else "e_out"
    D = mk("D", rng.choice(["event-based", "hybrid"]), 2, p_out=rng.choice([0.0, 0.5, 1.0]))
    E = mk("E", rng.choice(["event-based", "hybrid"]), 2)
    C = mk("C", rng.choice(["event-based", "hybrid"]), rng.choice([0, 0, 0, 1, len(groups) - 1]))
    sims = [A, D, E, C]
    kd = rng.choice([0, 0, 0, 1])
    conns = [
        {"src": 0, "se": 0, "dst": 1, "de": 0, "pairs": [[ao, "t_in"]], "shift": kd, "weak": False},
        {"src": 0, "se": 1, "dst": 3, "de": 0, "pairs": [[ao, "t_in"]], "shift": 0, "weak": False},
        {"src": 3, "se": 0, "dst": 2, "de": 0, "pairs": [["e_out", "t_in"]], "shift": kd if rng.random() < 0.7 else 0,
         "weak": False},
        {"src": 2, "se": 0, "dst": 1, "de": 1, "pairs": [["e_out", "t_in"]], "shift": 0, "weak": rng.random() < 0.85},
    ]
    if rng.random() < 0.3:
        # a consumer of D (inside H, inside G or outside)
        F = mk("F", rng.choice(["time-based", "event-based"]), rng.choice([0, 1, 2]))
        sims.append(F)
        conns.append({"src": 1, "se": 0, "dst": 4, "de": 0,
                      "pairs": [["e_out", "m_in" if F["type"] == "time-based" else "t_in"]], "shift": 0, "weak": False})
    cfg = {"cache": rng.random() < 0.5, "lazy": rng.random() < 0.6, "debug": False, "mli": 8,
           "start_seed": rng.choice([None, rng.randrange(1 << 30)]),
           "connect_seed": rng.choice([None, rng.randrange(1 << 30)]),
           "order_seed": rng.choice([None, rng.randrange(1 << 30)]),
           "iteration_cost": rng.choice([0.0, 1e-5])}
    sc = {"groups": groups, "sims": sims, "conns": conns, "until": rng.choice([2, 3, 4, 5]),
          "config": cfg, "feats": {"twopath": True, "deeptail": True}}
    repair_cycles(sc, rng)
    return sc


# ---------------------------------------------------------------------------------
# C06: two (sibling or nested) groups, each with a legal weak loop, and crossings between the loops:
# the big cycle through both groups is resolved only if one of the crossings is time-shifted
def gen_sibling_loops(seed: int, tier: str = "quick") -> Dict[str, Any]:
    rng = random.Random(sub_seed(seed, "sibloops"))
    shape = rng.choice(["siblings", "siblings", "siblings_in_group", "nested"])
    if shape == "siblings":
        groups, g1, g2 = [None, 0, 0], 1, 2
    elif shape == "siblings_in_group":
        groups, g1, g2 = [None, 0, 1, 1], 2, 3
    else:
        groups, g1, g2 = [None, 0, 1], 1, 2
    def mk(sid, g):
        return {"sid": sid, "type": "hybrid", "group": g, "n_ent": 2, "meta_style": rng.choice([0, 0, 1, 2]),
                "transport": "gated", "beh": {"bseed": rng.randrange(1 << 30), "p_self": 0.0, "p_out": 0.5, "loop_len": 1}}
    sims = [mk("D", g1), mk("X", g1), mk("P", g2), mk("S", g2)]
    def conn(a, b, shift=0, weak=False, de=0):
        c = {"src": a, "se": 0, "dst": b, "de": de, "pairs": [[rng.choice(["p_out", "e_out"]), "t_in"]],
             "shift": shift, "weak": weak}
        return c
    conns = [conn(0, 1, weak=True), conn(1, 0), conn(2, 3, weak=True), conn(3, 2)]
    k1 = rng.choice([0, 0, 1])
    k2 = rng.choice([0, 0, 1])
    conns.append(conn(1, 2, shift=k1, de=1))        # X -> P
    if rng.random() < 0.85:
        conns.append(conn(3, 0, shift=k2, de=1))    # S -> D
    if rng.random() < 0.3:
        # an outside simulator on one of the crossings
        sims.append(mk("O", 0))
        conns[4] = conn(1, 4)
        conns.append(conn(4, 2, shift=k1, de=1))
    rng.shuffle(conns)
    cfg = {"cache": rng.random() < 0.5, "lazy": rng.random() < 0.5, "debug": False, "mli": 6,
           "start_seed": None, "connect_seed": None, "order_seed": None}
    return {"groups": groups, "sims": sims, "conns": conns, "until": rng.choice([1, 2]), "config": cfg}


# ---------------------------------------------------------------------------------
# C17: a burst of external events - many steps booked in arbitrary order long before they are due
def gen_rt_burst(seed: int, tier: str = "quick") -> Dict[str, Any]:
    rng = random.Random(sub_seed(seed, "rtburst"))
    f = rng.choice([0.25, 0.25, 0.5])
    tr = 1.0
    period = f * tr
    until = rng.choice([24, 30, 36, 42])
    n_ev = rng.choice([8, 10, 11, 12, 14])
    times = rng.sample(range(2, until - 1), min(n_ev, until - 3))      # distinct, arbitrary order
    if rng.random() < 0.3:
        times.append(rng.choice(times))                                 # one time booked twice
    E = {"sid": "E", "type": rng.choice(["event-based", "event-based", "hybrid"]), "group": 0, "n_ent": 1,
         "meta_style": 0, "transport": rng.choice(["remote", "cmd"]), "set_events": True,
         "beh": {"bseed": rng.randrange(1 << 30), "p_self": 0.0, "self_d": 1, "p_out": rng.choice([0.5, 1.0]),
                 "loop_len": 1},
         "events": [{"at": period * 0.05 * (i + 1), "kind": "future", "dt": t_ - 1} for i, t_ in enumerate(times)],
         "rt": {"period": period, "until": until, "margin": 0}}
    if E["type"] == "event-based":
        E["init_event"] = rng.choice([None, 0])
    sims = [E]
    conns = []
    if rng.random() < 0.5:
        C = {"sid": "C", "type": "time-based", "group": 0, "n_ent": 1, "meta_style": 0,
             "transport": rng.choice(["gated", "stock", "remote"]),
             "beh": {"bseed": rng.randrange(1 << 30), "step_sizes": [rng.choice([1, 2, 3])]}}
        sims.append(C)
        conns.append({"src": 0, "se": 0, "dst": 1, "de": 0, "pairs": [["e_out", "m_in"]], "shift": 0, "weak": False})
    sched = {"profile": "uniform", "seed": rng.randrange(1 << 30), "unit": 1.0, "choices": [0.0]}
    zeroed = []
    for i, s_ in enumerate(sims):
        for nm in (s_["sid"], f"node{i}"):
            for o in (0, 1, 2):
                zeroed += [f"{nm}/{o}/xreq", f"{nm}/{o}/xrep"]
    sched["zeroed"] = zeroed
    cfg = {"cache": rng.random() < 0.5, "lazy": rng.random() < 0.7, "debug": False, "mli": 100,
           "start_seed": None, "connect_seed": None, "order_seed": None, "iteration_cost": 0.0,
           "time_resolution": tr, "rt_factor": f, "rt_strict": False}
    sc = {"groups": [None], "sims": sims, "conns": conns, "until": until, "config": cfg,
          "rt": {"f": f, "tr": tr, "dyadic": True, "durations": [0.0], "blocking": False, "burst": True}}
    return {"scenario": sc, "schedule": sched}
