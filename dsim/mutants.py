"""In-memory mutants for the sensitivity self-test (DESIGN 8).  Activated only by
DSIM_MUTANT=<name> in the environment of a check process; never in a registered command.
Each mutant rebinds a function/attribute of the imported mosaik modules."""
from __future__ import annotations

import asyncio
import os
from heapq import heappush

MUTANTS = {}


def mutant(name, prop):
    def deco(f):
        MUTANTS[name] = (prop, f)
        return f
    return deco


_applied = []


def apply_from_env():
    name = os.environ.get("DSIM_MUTANT")
    if not name:
        return None
    if _applied:
        return _applied[0]
    prop, f = MUTANTS[name]
    f()
    _applied.append(name)
    return name


# ------------------------------------------------------------------------------ C01
@mutant("c01_no_predecessor_wait", "C01")
def _m1():
    from mosaik import scheduler

    async def wait_for_dependencies(sim, lazy_stepping):
        futures = []
        next_step = sim.next_steps[0]
        for suc_sim, adapt in sim.successors_to_wait_for.items():
            futures.append(suc_sim.progress.has_reached(next_step + adapt))
        if lazy_stepping:
            for suc_sim, adapt in sim.successors.items():
                futures.append(suc_sim.progress.has_reached(next_step + adapt))
        await asyncio.gather(*futures)
    scheduler.wait_for_dependencies = wait_for_dependencies


@mutant("c01_reached_instead_of_passed", "C01")
def _m1b():
    from mosaik.progress import Progress
    Progress.has_passed = Progress.has_reached


# ------------------------------------------------------------------------------ C02
@mutant("c02_no_dedup", "C02")
def _m2():
    from mosaik.simmanager import SimRunner
    import heapq as hq

    def schedule_step(self, tiered_time):
        is_earlier = not self.next_steps or tiered_time < self.next_steps[0]
        hq.heappush(self.next_steps, tiered_time)
        if is_earlier:
            self.newer_step.set()
    SimRunner.schedule_step = schedule_step


@mutant("c02_trigger_lost_when_in_step", "C02")
def _m2b():
    from mosaik.simmanager import SimRunner
    orig = SimRunner.schedule_step

    def schedule_step(self, tiered_time):
        if self.is_in_step and self.current_step is not None and tiered_time.time == self.current_step.time + 1:
            return None     # a trigger that arrives while the destination is in flight is dropped
        return orig(self, tiered_time)
    SimRunner.schedule_step = schedule_step


# ------------------------------------------------------------------------------ C03
@mutant("c03_wrong_shift_in_pull", "C03")
def _m3():
    from mosaik.simmanager import SimRunner

    def get_output_for(self, time):
        for data_time, value in reversed(self.outputs.items()):
            if data_time <= time + 1:
                return value
        return {}
    SimRunner.get_output_for = get_output_for


@mutant("c03_buffer_pops_late", "C03")
def _m3b():
    from mosaik.simmanager import TimedInputBuffer
    import heapq as hq

    def get_input(self, input_dict, step):
        while len(self.input_queue) > 0 and self.input_queue[0][0] < step:
            _, _, src_full_id, eid, attr, value = hq.heappop(self.input_queue)
            input_dict.setdefault(eid, {}).setdefault(attr, {})[src_full_id] = value
        return input_dict
    TimedInputBuffer.get_input = get_input


# ------------------------------------------------------------------------------ C04
@mutant("c04_order_dependent_merge", "C04")
def _m4():
    from mosaik import scheduler
    orig = scheduler.get_input_data

    def get_input_data(world, sim):
        d = orig(world, sim)
        # loses one input whenever another simulator is in the middle of a step: a function
        # of the interleaving only
        if any(s.is_in_step for s in world.sims.values() if s is not sim):
            for eid in d:
                for attr in d[eid]:
                    if d[eid][attr]:
                        d[eid][attr].pop(next(iter(d[eid][attr])))
                        return d
        return d
    scheduler.get_input_data = get_input_data


# ------------------------------------------------------------------------------ C05
@mutant("c05_advance_only_self", "C05")
def _m5():
    from mosaik import scheduler
    orig = scheduler.advance_progress

    def advance_progress(sim, world):
        import inspect
        fr = inspect.currentframe().f_back
        me = fr.f_locals.get("sim")
        if fr.f_code.co_name == "sim_process" and "isim" in fr.f_locals and me is not sim:
            if hash(sim.sid) % 2 == 0 or True:
                # skip advancing the others in every second call
                advance_progress.n += 1
                if advance_progress.n % 2:
                    return
        return orig(sim, world)
    advance_progress.n = 0
    scheduler.advance_progress = advance_progress


# ------------------------------------------------------------------------------ C06
@mutant("c06_weak_always_resolves", "C06")
def _m6():
    from mosaik import scenario
    orig = scenario.World.ensure_no_dataflow_cycles

    def ensure(self):
        try:
            return orig(self)
        except scenario.ScenarioError:
            # pretend any weak connection anywhere resolves the cycle
            for sim in self.sims.values():
                for d in sim.input_delays.values():
                    if any(t for t in d.tiers[1:]):
                        return
            raise
    scenario.World.ensure_no_dataflow_cycles = ensure


# ------------------------------------------------------------------------------ C07
@mutant("c07_ignore_ancestors", "C07")
def _m7():
    from mosaik import scheduler

    def get_max_advance(world, sim, until):
        own = [sim.next_steps[0].time] if sim.next_steps else []
        return min([*own, until + 1]) - 1
    scheduler.get_max_advance = get_max_advance


# ------------------------------------------------------------------------------ C09
@mutant("c09_gt_instead_of_ge", "C09")
def _m9():
    from mosaik import scenario
    orig_init = scenario.World.__init__

    def __init__(self, *a, **k):
        orig_init(self, *a, **k)
        self.max_loop_iterations += 1      # same effect as '>' instead of '>='
    scenario.World.__init__ = __init__


# ------------------------------------------------------------------------------ C10
@mutant("c10_no_lazy_wait", "C10")
def _m10():
    from mosaik import scheduler
    orig = scheduler.wait_for_dependencies

    async def wait_for_dependencies(sim, lazy_stepping):
        return await orig(sim, False)
    scheduler.wait_for_dependencies = wait_for_dependencies


# ------------------------------------------------------------------------------ C11
@mutant("c11_no_initial_data_check", "C11")
def _m11():
    from mosaik import scenario
    orig = scenario.World.connect_one

    def connect_one(self, src, dest, src_attr, dest_attr=None, time_shifted=False, weak=False,
                    initial_data=scenario.SENTINEL):
        if (time_shifted or weak) and initial_data is scenario.SENTINEL:
            initial_data = None
        return orig(self, src, dest, src_attr, dest_attr, time_shifted, weak, initial_data)
    scenario.World.connect_one = connect_one


@mutant("c11_group_value_equality", "C11")
def _m11b():
    from mosaik import scenario
    scenario.SimGroup.__eq__ = lambda a, b: isinstance(b, scenario.SimGroup) and (
        (a.parent is None and b.parent is None) or (a.parent is not None and b.parent is not None
                                                    and a.parent == b.parent))
    scenario.SimGroup.__hash__ = lambda a: 0


# ------------------------------------------------------------------------------ C13
@mutant("c13_accept_same_time", "C13")
def _m13():
    from mosaik import scheduler
    import inspect
    src = inspect.getsource(scheduler.step).replace("next_step_time <= sim.current_step.time",
                                                    "next_step_time < sim.current_step.time")
    ns = dict(scheduler.__dict__)
    exec(src, ns)
    scheduler.step = ns["step"]
    import mosaik._debug as dbg
    dbg._originals["step"] = ns["step"]


# ------------------------------------------------------------------------------ C14
@mutant("c14_stop_only_first", "C14")
def _m14():
    from mosaik import scenario

    def shutdown(self):
        if not self.loop.is_closed():
            for sim in list(self.sims.values())[:1]:
                self.loop.run_until_complete(sim.stop())
            self.loop.stop()
            self.loop.run_forever()
            self.loop.close()
    scenario.World.shutdown = shutdown


@mutant("c14_swallow_error", "C14")
def _m14b():
    from mosaik import scheduler
    orig = scheduler.sim_process

    async def sim_process(world, sim, until, rt_factor, rt_strict, lazy_stepping):
        try:
            return await orig(world, sim, until, rt_factor, rt_strict, lazy_stepping)
        except Exception:  # noqa: BLE001
            for s in world.sims.values():
                if s.task is not None and s is not sim and not s.task.done():
                    s.task.cancel()
            raise asyncio.CancelledError()
    scheduler.sim_process = sim_process


# ------------------------------------------------------------------------------ C15
@mutant("c15_adapter_keeps_max_advance", "C15")
def _m15():
    from mosaik import adapters

    async def send(self, request):
        return await self._out.send(request)
    adapters.V3ToV2Adapter.send = send


@mutant("c15_setup_done_to_v1", "C15")
def _m15b():
    from mosaik import adapters

    async def send(self, request):
        return await self._out.send(request)
    adapters.V2ToV1Adapter.send = send


# ------------------------------------------------------------------------------ C16
@mutant("c16_set_data_not_cleared", "C16")
def _m16():
    from mosaik import scheduler
    orig = scheduler.get_input_data

    def get_input_data(world, sim):
        import copy
        keep = copy.deepcopy(sim.inputs_from_set_data)
        d = orig(world, sim)
        sim.inputs_from_set_data = keep
        return d
    scheduler.get_input_data = get_input_data


@mutant("c16_no_wait_for_agents", "C16")
def _m16b():
    from mosaik import scenario
    orig = scenario.World.connect_async_requests

    def connect_async_requests(self, src, dest):
        orig(self, src, dest)
        self.sims[src._sid].successors_to_wait_for.pop(self.sims[dest._sid], None)
        # keep the permission check happy
        self.sims[src._sid]._async_ok = True
    scenario.World.connect_async_requests = connect_async_requests
    from mosaik import simmanager

    def _assert_async_requests(self, src_sim, dest_sim):
        if dest_sim not in src_sim.successors:
            raise scenario.ScenarioError("no connection")
    simmanager.MosaikRemote._assert_async_requests = _assert_async_requests


# ------------------------------------------------------------------------------ C17
@mutant("c17_rt_cap_generous", "C17")
def _m17():
    from mosaik import scheduler
    import inspect
    src = inspect.getsource(scheduler.advance_progress).replace(
        "ceil(rt_passed / world.rt_factor)", "ceil(rt_passed / world.rt_factor) + 1")
    ns = scheduler.__dict__
    exec(src, ns)


# ------------------------------------------------------------------------------ C18
@mutant("c18_off_by_one_max_connects", "C18")
def _m18():
    import mosaik.util as mu
    import inspect
    src = inspect.getsource(mu._connect_randomly).replace("connects[dest] >= max_connects",
                                                          "connects[dest] > max_connects")
    exec(src, mu.__dict__)


@mutant("c18_async_link_once_per_agent", "C18")
def _m18b():
    # connect_many_to_one(..., async_requests=True) with sources from several simulators: only the first
    # source simulator is linked to the agent (needs the real-World family)
    from mosaik import scenario
    orig = scenario.World.connect_async_requests

    def connect_async_requests(self, src, dest):
        seen = self.__dict__.setdefault("_dsim_async_dests", set())
        if dest._sid in seen:
            return
        seen.add(dest._sid)
        return orig(self, src, dest)
    scenario.World.connect_async_requests = connect_async_requests


# ------------------------------------------------------------------------------ C14 (slow survivor)
@mutant("c14_stop_waits_for_open_request", "C14")
def _m14c():
    # the shutdown waits for the request that is still open towards a surviving in-process simulator
    from mosaik import proxies
    orig_send = proxies.LocalProxy.send
    orig_stop = proxies.LocalProxy.stop

    async def send(self, request):
        lock = self.__dict__.setdefault("_dsim_lock", asyncio.Lock())
        async with lock:
            return await orig_send(self, request)

    async def stop(self):
        lock = self.__dict__.setdefault("_dsim_lock", asyncio.Lock())
        async with lock:
            return await orig_stop(self)
    proxies.LocalProxy.send = send
    proxies.LocalProxy.stop = stop
