#!/venv/bin/python
"""Re-run the target check against stored seeded changes (no sub-agent worktree needed).

usage: tools/recheck_seeded.py [--budget S] [id ...]       (default: every seeded/<id>)
For each change: git -C /repo apply seeded/<id>/patch.diff; ./check <property>; git -C /repo checkout -- .
and the result is written back to seeded/<id>/meta.json (checks[<property>], caught_by...)."""
import json, os, subprocess, sys, time
ROOT = os.path.dirname(os.path.dirname(os.path.abspath(__file__)))
args = sys.argv[1:]
budget = "30"
if "--budget" in args:
    i = args.index("--budget")
    budget = args[i + 1]
    del args[i:i + 2]
WT = None
if "--worktree" in args:
    # apply the changes to a scratch worktree of /repo (put first on PYTHONPATH) instead of /repo itself
    i = args.index("--worktree")
    WT = args[i + 1]
    del args[i:i + 2]
REPO = WT or "/repo"
ids = args or sorted(d for d in os.listdir(os.path.join(ROOT, "seeded")) if os.path.isdir(os.path.join(ROOT, "seeded", d)))


def sh(cmd):
    return subprocess.run(cmd, shell=True, capture_output=True, text=True)


for sid in ids:
    d = os.path.join(ROOT, "seeded", sid)
    mp = os.path.join(d, "meta.json")
    m = json.load(open(mp))
    prop = m["breaks_property"]
    assert sh(f"git -C {REPO} status --short").stdout.strip() == "", "/repo not clean"
    ap = sh(f"git -C {REPO} apply {d}/patch.diff")
    if ap.returncode != 0:
        print(sid, "patch does not apply to /repo HEAD:", ap.stderr.strip()[:200])
        m.setdefault("checks", {})[prop] = {"exit": None, "how": "patch does not apply to /repo HEAD any more"}
        json.dump(m, open(mp, "w"), indent=1)
        continue
    try:
        t0 = time.time()
        c = sh(f"cd {ROOT} && " + (f"PYTHONPATH={WT} VERIF_JOBS=8 " if WT else "") + f"./check {prop} --seconds {budget} --no-evidence")
    finally:
        sh(f"git -C {REPO} checkout -- .")
    lines = [l[:300] for l in c.stdout.splitlines() if l.startswith(("violation kind", "VIOLATION", "repaired defect"))]
    m.setdefault("checks", {})[prop] = {"exit": c.returncode, "first": lines[:3], "wall_s": round(time.time() - t0, 1),
                                        "how": ("git -C /repo apply; ./check; git -C /repo checkout -- . (tools/recheck_seeded.py)" if not WT else
                                                "scratch worktree with the change on PYTHONPATH, 8 workers (tools/recheck_seeded.py --worktree)")}
    m["caught_by"] = sorted(set(p for p, v in m["checks"].items() if v.get("exit") == 1))
    m["caught_by_target_check"] = c.returncode == 1
    json.dump(m, open(mp, "w"), indent=1)
    print(sid, prop, "exit", c.returncode, (lines[0][:140] if lines else ""), flush=True)
    sh(f"rm -f {ROOT}/replays/C*.json")
assert sh(f"git -C {REPO} status --short").stdout.strip() == ""
