"""Seams (DESIGN 2.3): everything the simulator owns is rebound here, in the check
process only.  Nothing under /repo is modified."""
from __future__ import annotations

import asyncio
import sys
import types
import warnings

import tqdm as _tqdm

_tqdm.tqdm.monitor_interval = 0

import mosaik  # noqa: E402
from loguru import logger  # noqa: E402
from mosaik import scenario, scheduler, simmanager  # noqa: E402
import mosaik._debug as _debug  # noqa: E402
from mosaik.proxies import LocalProxy, RemoteProxy  # noqa: E402

from . import ctx  # noqa: E402
from .loop import h64  # noqa: E402
from .stubs import STUB_CLASSES  # noqa: E402
from .transport import Node  # noqa: E402

GATED = ("setup_done", "step", "get_data")
_REAL_REMOTE_PROXY = RemoteProxy
_installed = False


# ---------------------------------------------------------------- clock
def _now():
    r = ctx.CUR
    if r is None or r.loop is None:
        return 0.0
    return r.loop.time()


# ---------------------------------------------------------------- ChoiceSet
class ChoiceSet:
    """Insertion-ordered replacement for ``set`` inside mosaik.scenario: iteration and
    pop() order are chosen by the run's order seed instead of by hash / address."""

    def __init__(self, it=()):
        self._d = {}
        for x in it:
            self._d[x] = None

    def _key(self):
        r = ctx.CUR
        seed = None
        if r is not None:
            seed = r.scenario.get("config", {}).get("order_seed")
        if seed is None:
            return None
        return lambda x: h64(seed, repr(x))

    def add(self, x):
        self._d[x] = None

    def discard(self, x):
        self._d.pop(x, None)

    def pop(self):
        if not self._d:
            raise KeyError("pop from an empty set")
        k = self._key()
        if k is None:
            x = next(iter(self._d))
        else:
            x = min(self._d, key=k)
        del self._d[x]
        return x

    def __iter__(self):
        k = self._key()
        if k is None:
            return iter(list(self._d))
        return iter(sorted(self._d, key=k))

    def __len__(self):
        return len(self._d)

    def __bool__(self):
        return bool(self._d)

    def __contains__(self, x):
        return x in self._d

    def difference(self, other):
        return ChoiceSet(x for x in self._d if x not in other)

    def __repr__(self):
        return "ChoiceSet(%r)" % (list(self._d),)


# ---------------------------------------------------------------- proxies
class _GatedMosaik:
    """Latency on simulator-initiated requests of an in-process stub."""

    def __init__(self, real, sid_ref):
        self._real = real
        self._sid_ref = sid_ref
        self._n = 0

    def __getattr__(self, name):
        f = getattr(self._real, name)
        run = ctx.cur()
        proxy = self._sid_ref

        async def call(*a, **k):
            n = self._n
            self._n += 1
            sid = proxy.sid
            d = run.sched.delay(sid, n, "areq")
            if d is not None:
                await run.loop.gate(d, (sid, n, "areq"))
            r = await f(*a, **k)
            d = run.sched.delay(sid, n, "arep")
            if d is not None:
                await run.loop.gate(d, (sid, n, "arep"))
            return r
        return call


class GatedLocalProxy(LocalProxy):
    """The real LocalProxy; ``send`` passes two gates (request delivered / reply
    delivered) owned by the simulator."""

    def __init__(self, sim, mosaik_remote):
        super().__init__(sim, mosaik_remote)
        self.sid = None
        self._n = 0
        self.stops = 0
        sim.mosaik = _GatedMosaik(mosaik_remote, self)

    async def init(self, sid, **kwargs):
        self.sid = sid
        ctx.cur().proxies[sid] = self
        return await super().init(sid, **kwargs)

    async def send(self, request):
        func = request[0]
        if func not in GATED:
            return await super().send(request)
        run = ctx.cur()
        sid = self.sid
        n = self._n
        self._n += 1
        run.rec("issue", func, sid, run.tau_of(sid), n)
        run.in_flight_mosaik[sid] = run.in_flight_mosaik.get(sid, 0) + 1
        d = run.sched.delay(sid, n, "req")
        if d is not None:
            await run.loop.gate(d, (sid, n, "req"))
        try:
            res = await super().send(request)
        except BaseException as e:
            run.in_flight_mosaik[sid] -= 1
            run.rec("done_exc", func, sid, n, type(e).__name__)
            raise
        d = run.sched.delay(sid, n, "rep")
        if d is not None:
            await run.loop.gate(d, (sid, n, "rep"))
        run.in_flight_mosaik[sid] -= 1
        run.rec("done", func, sid, n)
        return res

    async def stop(self):
        self.stops += 1
        ctx.cur().rec("proxy_stop", self.sid)
        await super().stop()


class RecordingRemoteProxy(_REAL_REMOTE_PROXY):
    """The real RemoteProxy; only records when mosaik issues a request and when the
    reply has arrived."""

    _dsim_sid = None
    _dsim_n = 0

    async def init(self, sid, **kwargs):
        self._dsim_sid = sid
        run = ctx.cur()
        run.proxies[sid] = self
        node = getattr(self._channel, "_dsim_node", None)
        if node is not None:
            node.set_sid(sid)
            run.nodes[sid] = node
        return await super().init(sid, **kwargs)

    async def send(self, request):
        func = request[0]
        if func not in GATED:
            return await super().send(request)
        run = ctx.cur()
        sid = self._dsim_sid
        n = self._dsim_n
        self._dsim_n += 1
        run.rec("issue", func, sid, run.tau_of(sid), n)
        run.in_flight_mosaik[sid] = run.in_flight_mosaik.get(sid, 0) + 1
        try:
            res = await super().send(request)
        except BaseException as e:
            run.in_flight_mosaik[sid] -= 1
            run.rec("done_exc", func, sid, n, type(e).__name__)
            raise
        run.in_flight_mosaik[sid] -= 1
        run.rec("done", func, sid, n)
        return res

    async def stop(self):
        ctx.cur().rec("proxy_stop", self._dsim_sid)
        await super().stop()


# ---------------------------------------------------------------- starters
async def _start_dsim(mosaik_config, sim_name, sim_config, mosaik_remote):
    cls = STUB_CLASSES[sim_config["dsim"]]
    return GatedLocalProxy(cls(), mosaik_remote)


def _node_for_port(port):
    run = ctx.cur()
    idx = int(port)
    spec = run.scenario["sims"][idx]
    cls = STUB_CLASSES[spec.get("stub", "stub")]
    return Node(run, idx, cls)


async def _fake_open_connection(host, port, **kw):
    run = ctx.cur()
    f = run.fault_state.get("connect_refused")
    if f is not None and int(port) in f:
        raise ConnectionRefusedError(111, "Connection refused")
    node = _node_for_port(port)
    reader, writer = node.connect()
    _tag_next_channel(node)
    return reader, writer


_pending_node = []


def _tag_next_channel(node):
    _pending_node.append(node)


class _TaggingChannel(simmanager.Channel):
    def __init__(self, reader, writer, name=None):
        super().__init__(reader, writer, name=name)
        self._dsim_node = _pending_node.pop() if _pending_node else None


class _FakeSocket:
    def __init__(self, addr):
        self._addr = addr

    def getsockname(self):
        return self._addr


class _FakeServer:
    def __init__(self, cb, host, port):
        self.cb = cb
        self.sockets = [_FakeSocket((host or "127.0.0.1", port or 54321))]
        self.closed = False
        ctx.cur().fault_state["server"] = self
        ctx.cur().fault_state.setdefault("servers", []).append(self)

    def close(self):
        self.closed = True


async def _fake_start_server(cb, host=None, port=None, **kw):
    return _FakeServer(cb, host, port)


class _FakePopen:
    def __init__(self, cmd, **kw):
        # cmd = ['dsim-node', '<addr>', '<idx>']
        run = ctx.cur()
        if cmd[0] != "dsim-node":
            raise FileNotFoundError(2, "No such file or directory", cmd[0])
        idx = int(cmd[2])
        server = run.fault_state.get("server")
        node = _node_for_port(idx)
        if run.fault_state.get("never_connect") and idx in run.fault_state["never_connect"]:
            return
        reader, writer = node.connect()
        _tag_next_channel(node)
        res = server.cb(reader, writer)
        if asyncio.iscoroutine(res):
            run.loop.create_task(res)


_fake_subprocess = types.SimpleNamespace(Popen=_FakePopen)


# ---------------------------------------------------------------- logging
def _sink(message):
    r = ctx.CUR
    if r is None:
        return
    rec = message.record
    r.rec("log", rec["level"].name, rec["message"])


_orig_set_event = simmanager.MosaikRemote.set_event


async def _recording_set_event(self, event_time):
    r = ctx.CUR
    if r is not None:
        r.rec("set_event_processed", self.sid, event_time)
    return await _orig_set_event(self, event_time)


def install():
    global _installed
    if _installed:
        return
    _installed = True
    simmanager.MosaikRemote.set_event = _recording_set_event
    scheduler.perf_counter = _now
    _debug.perf_counter = _now
    scenario.set = ChoiceSet
    sc = simmanager.StarterCollection()
    sc["dsim"] = _start_dsim
    sc.move_to_end("dsim", last=False)
    asyncio.open_connection = _fake_open_connection
    asyncio.start_server = _fake_start_server
    simmanager.subprocess = _fake_subprocess
    simmanager.RemoteProxy = RecordingRemoteProxy
    simmanager.Channel = _TaggingChannel
    logger.remove()
    logger.add(_sink, level="WARNING", format="{message}")
