"""C14 -- fault containment and clean shutdown (crash swarm, fault enumeration;
DESIGN 6.C14)."""
from __future__ import annotations

import json
import random
from typing import Any, Dict, List

from .. import gen, runner
from ..engine import digest
from ..loop import h64
from ..refmodel import RM
from . import core as pcore

ENGINE = "c14"
LEVEL = "fault_enumeration"
RULE = ("for each sampled (scenario with 2-4 simulators, latency schedule, transport assignment) "
        "the fault-free history is recorded; fault points = (simulator, request index among "
        "setup_done/step/get_data, fault kind applicable to its transport: raise in handler; "
        "process exit inside the handler; process exit right after the reply; torn reply frame); "
        "quick runs a seeded sample of the points of each execution, thorough all; one run per "
        "point; distinct+non-trivial = distinct (scenario, schedule, point) whose fault fired")
LOCAL = ("stock", "gated")
EXC_CLASSES = (None, None, "TypeError", "ValueError", "KeyError", "RuntimeError", "StopIteration")
REMOTE_KINDS = ("raise", "kill_in_handler", "kill_after_reply", "torn_reply", "reset_in_handler", "reset_after_reply")
C14_PROFILES = ("zero", "uniform", "per_sim", "heavy", "slow_req", "ties", "slowlink", "slowlink")


def make_start_case(seed: int, tier: str) -> Dict[str, Any]:
    """A simulator process that is started with 'cmd' but never connects back: start() must fail
    after start_timeout, and the listening socket mosaik opened for it must not stay behind."""
    rng = random.Random(h64(seed, "c14start"))
    sc = gen.gen_core(seed, tier, transport_mix="mixed", max_sims=3)
    sc["config"]["debug"] = False
    sc["config"]["iteration_cost"] = 0.0
    idx = rng.randrange(len(sc["sims"]))
    sc["sims"][idx]["transport"] = "cmd"
    sc["config"]["mosaik_config"] = {"start_timeout": rng.choice([0.5, 2.0, 10.0])}
    return {"start_phase": True, "scenario": sc, "schedule": {"profile": rng.choice(["zero", "uniform", "ties"]),
                                                             "seed": rng.randrange(1 << 30)},
            "never_connects": idx}


def run_start_case(case, prop) -> Dict[str, Any]:
    sc, sp, idx = case["scenario"], case["schedule"], case["never_connects"]
    out = {"runs": 1, "violations": [], "stats": {"start_phase_cases": 1}, "fps": set(), "ntfps": set(),
           "scen": {h64(json.dumps(sc, sort_keys=True))}, "sim_time": 0.0, "steps": 0, "aborted": 1, "completed": 0}
    r = runner.execute(sc, sp, hooks={"pre": lambda run: run.fault_state.__setitem__("never_connect", {idx})})
    hd = digest(r.hist)
    sid = sc["sims"][idx]["sid"]
    oc = r.outcome
    feats = {"fault": "never_connects", "func": "start", "transport": "remote"}
    viols = []
    out["fps"].add(pcore.fingerprint(r.hist))
    out["ntfps"].add(h64(next(iter(out["scen"])), "start"))
    out["stats"]["fault_never_connects"] = 1
    if oc[0] in ("deadlock", "livelock", "hang"):
        viols.append({"kind": "run_hangs", "features": dict(feats, how=oc[0], waiting_for_dead_simulator=True),
                      "detail": {"outcome": list(oc)}})
    elif not (oc[0] == "start_error" and oc[1] == sid):
        viols.append({"kind": "failure_swallowed", "features": feats, "detail": {"outcome": list(oc)[:4]}})
    else:
        t_out = sc["config"]["mosaik_config"]["start_timeout"]
        q = next((i for i, h in enumerate(r.hist) if h[0] == "start_result" and h[1] == sid), None)
        if q is not None and r.vt[q] > t_out + 1.0:
            viols.append({"kind": "run_not_prompt", "features": feats,
                          "detail": {"t_start_failed": r.vt[q], "start_timeout": t_out}})
        servers = r.run.fault_state.get("servers", [])
        if any(not s_.closed for s_ in servers):
            viols.append({"kind": "listening_socket_left_open", "features": feats,
                          "detail": {"servers": len(servers), "open": sum(1 for s_ in servers if not s_.closed),
                                     "outcome": list(oc)[:4]}})
    for v in viols:
        v["digest"] = hd
        v["case"] = case
    out["violations"] = viols
    out["digest"] = hd
    return out


def make_case(seed: int, tier: str, prop: str, opts=None) -> Dict[str, Any]:
    if h64(seed, "c14family") % 100 < 3:
        return make_start_case(seed, tier)
    rng = random.Random(h64(seed, "c14"))
    if rng.random() < 0.25:
        # plant + agents issuing set_data/get_data requests while they are stepped (requests of
        # the simulators themselves are in flight when the fault strikes)
        sc = gen.gen_async(seed, tier)
        sc.pop("illegal_async", None)
        for s in sc["sims"]:
            calls = s["beh"].get("async_calls")
            if calls:
                s["beh"]["async_calls"] = [c for c in calls if not c.get("illegal")]
        for c in sc["conns"]:
            if "async" in c and c["async"] is False:
                c["async"] = True
        sc["sims"] = sc["sims"][:4]
        sc["conns"] = [c for c in sc["conns"] if c["src"] < 4 and c["dst"] < 4]
    else:
        sc = gen.gen_core(seed, tier, transport_mix="mixed", max_sims=4)
        if len(sc["sims"]) < 2:
            sc = gen.gen_core(h64(seed, "again"), tier, transport_mix="mixed", max_sims=4)
    sc["config"]["debug"] = rng.random() < 0.12      # (debug mode must not change fault handling)
    sc["config"]["iteration_cost"] = 0.0
    sc["until"] = min(sc["until"], 5)
    # at least one remote simulator in most cases
    if rng.random() < 0.8 and not any(s["transport"] in ("remote", "cmd") for s in sc["sims"]):
        rng.choice(sc["sims"])["transport"] = rng.choice(["remote", "cmd"])
    prof = rng.choice(C14_PROFILES)
    sp = {"profile": prof, "seed": rng.randrange(1 << 30)}
    if rng.random() < 0.3:
        sp["split"] = True
    if rng.random() < 0.15 and not any(s.get("stub") == "async" for s in sc["sims"]):
        # the same faults in real-time mode (poll timers race with the shutdown)
        sc["config"]["rt_factor"] = rng.choice([0.02, 0.05, 0.2])
        sc["until"] = min(sc["until"], 3)
    has_agents = any(s.get("stub") == "async" for s in sc["sims"])
    if rng.random() < (0.45 if has_agents else 0.15) and not sc["config"].get("rt_factor"):
        # one simulator whose every reply takes very long (it is healthy, just slow): when another one
        # fails, nothing may wait for the replies it still owes - e.g. the reply to a get_data request that
        # an agent has made from inside its step
        slow_sid = rng.choice(sc["sims"])["sid"]
        if has_agents and rng.random() < 0.6:
            slow_sid = sc["sims"][0]["sid"]          # the plant
            if rng.random() < 0.7:
                # ... and an in-process agent that asks it for data from inside every step (not served
                # from the cache): the agent's step is suspended on that request for a long time
                ags = [s_ for s_ in sc["sims"] if s_.get("stub") == "async"]
                ag = rng.choice(ags)
                ag["transport"] = rng.choice(["gated", "stock"])
                ag["beh"]["async_calls"] = [{"kind": "get_data", "p": 1.0, "dst": f"{slow_sid}.e0", "attrs": ["p_out"]}] + \
                    list(ag["beh"].get("async_calls") or [])
                sc["config"]["cache"] = False
        sp["slow"] = {"sid": slow_sid, "delay": 30.0}
    return {"scenario": sc, "schedule": sp, "sample_seed": seed,
            "max_points": (10 if tier == "quick" else None),
            "double": (1 if tier == "quick" else 8)}


def fault_points(sc, hist) -> List[Dict[str, Any]]:
    tr = {s["sid"]: s.get("transport", "gated") for s in sc["sims"]}
    pts = []
    for r in hist:
        if r[0] != "begin" or r[1] not in ("setup_done", "step", "get_data"):
            continue
        _, func, sid, tau, args, n = r
        kinds = ("raise",) if tr[sid] in LOCAL else REMOTE_KINDS
        for k in kinds:
            pt = {"sid": sid, "req": n, "phase": "pre", "kind": k, "func": func}
            if k == "raise":
                # the exception class a failing simulator raises is its own business
                x = EXC_CLASSES[h64(sid, n, func, "exc") % len(EXC_CLASSES)]
                if x is not None:
                    pt["exc"] = x
            pts.append(pt)
    return pts


def max_latency(sp):
    p = sp.get("profile")
    if p == "slowlink":
        return 0.25
    if p == "heavy":
        return 0.05
    return 0.02


def check_one(sc, sp, f, last_req=None, f2=None):
    r = runner.execute(sc, sp, faults=[f] + ([f2] if f2 else []))
    hist, vt = r.hist, r.vt
    viols = []
    qf = next((i for i, h in enumerate(hist) if h[0] == "fault"), None)
    if qf is None:
        return [], False, r
    tr = {s["sid"]: s.get("transport", "gated") for s in sc["sims"]}
    sid = f["sid"]
    faulty = {sid} | ({f2["sid"]} if f2 else set())
    if f2 is not None:
        # whichever of the two faults fired first is "the" fault
        first = hist[qf]
        if first[2] == f2["sid"] and first[2] != sid:
            f, f2 = f2, f
            sid = f["sid"]
    oc = r.outcome
    feats = {"fault": f["kind"], "func": f["func"], "transport": "local" if tr[sid] in LOCAL else "remote"}
    if f.get("exc"):
        feats["exc"] = f["exc"]
    if f2 is not None:
        feats["second_fault"] = f2["kind"]
    q_ret = next((i for i, h in enumerate(hist) if h[0] == "run_returned"), len(hist) - 1)
    q_cut = next((i for i, h in enumerate(hist) if h[0] == "harness_cleanup"), len(hist))
    hist = hist[:q_cut]          # whatever the harness does to clean up is not mosaik's doing
    hung = oc[0] in ("deadlock", "livelock", "hang") or r.world_info.get("deadlock_seen") \
        or r.world_info.get("livelock_seen")
    # (1) bounded termination
    if hung:
        how = oc[0] if oc[0] in ("deadlock", "livelock", "hang") else "deadlock"
        last_issue = next((h for h in reversed(hist) if h[0] == "issue"), None)
        viols.append({"kind": "run_hangs",
                      "features": dict(feats, how=how,
                                       waiting_for_dead_simulator=bool(last_issue and last_issue[2] == sid)),
                      "detail": {"fault": f, "outcome": list(oc), "last_request": last_issue,
                                 "waiting": pcore.waiting_summary(r)}})
        return viols, True, r
    if False:
        viols.append({"kind": "run_hangs", "features": dict(feats, how=oc[0]),
                      "detail": {"fault": f, "outcome": list(oc), "waiting": pcore.waiting_summary(r)}})
    else:
        # the clock for "promptly" starts when mosaik can notice: at the fault if a request to the
        # simulator is outstanding, else at the next request issued to it (if there is none, the
        # rest of the run legitimately goes on without the dead simulator)
        if f["kind"] in ("raise", "kill_in_handler", "torn_reply", "reset_in_handler"):
            q_notice = qf
        else:
            q_notice = next((i for i in range(qf, len(hist))
                             if hist[i][0] in ("issue", "done_exc") and hist[i][2] == sid), None)
        bound = None if q_notice is None else \
            vt[q_notice] + len(sc["sims"]) * (0.1 + 2 * max_latency(sp)) + 1.0
        if bound is not None and sp.get("slow") and sp["slow"]["sid"] in faulty:
            bound += 2 * sp["slow"]["delay"]         # (the failure itself travels on the slow link)
        # (run() returns when mosaik has closed its event loop; what the simulated universe does after
        # that - the post-mortem drain of the DetLoop - is not mosaik's time)
        t_ret = r.world_info.get("close_vtime")
        if t_ret is None:
            t_ret = vt[q_ret]
        if bound is not None and t_ret > bound:
            viols.append({"kind": "run_not_prompt", "features": feats,
                          "detail": {"fault": f, "t_fault": vt[qf], "t_return": t_ret, "bound": bound}})
    # (2) error or logged remote error
    is_last = last_req is not None and f["kind"] in ("kill_after_reply", "reset_after_reply") and \
        f["req"] >= last_req.get(sid, 1 << 30)
    if oc[0] == "ok" and not is_last:
        # (a simulator that exits after its very last reply cannot be noticed before stop)
        if not any(h[0] == "log" and h[1] in ("ERROR", "CRITICAL") for h in hist):
            viols.append({"kind": "failure_swallowed", "features": feats,
                          "detail": {"fault": f, "outcome": list(oc)}})
    if oc[0] == "exception" and oc[1] == "CancelledError":
        # nobody cancelled run(): the failure itself has been lost and what the caller gets is a bare
        # CancelledError (not even an Exception), which says nothing about any simulator
        viols.append({"kind": "failure_replaced_by_cancellation", "features": feats,
                      "detail": {"fault": f, "outcome": list(oc)}})
    # survivors whose own request to mosaik (set_data/get_data from inside a step) is unanswered:
    # they started that step from a request that was still in flight when mosaik shut down
    answered = {h[3] for h in hist if h[0] in ("async_done", "async_err")}
    stuck = {h[1] for i, h in enumerate(hist) if h[0] == "async_call" and i not in answered}
    if True:
        # (3) every other simulator stopped exactly once
        for s in sc["sims"]:
            o = s["sid"]
            if o in faulty:
                continue
            fin = sum(1 for h in hist if h[0] == "finalize" and h[1] == o)
            if tr[o] in LOCAL:
                if fin != 1:
                    viols.append({"kind": "survivor_not_finalized_once",
                                  "features": dict(feats, survivor="local", count=min(fin, 2)),
                                  "detail": {"fault": f, "survivor": o, "finalize_calls": fin}})
            else:
                stops = sum(1 for h in hist if h[0] == "stop" and h[1] == o)
                node = r.run.nodes.get(o)
                if stops == 0 and fin == 1 and node is not None and node.t_mosaik is not None \
                        and node.t_mosaik.stop_frames_written == 1 and node.t_node.dead_writes >= 1:
                    # mosaik sent 'stop' once and the simulator's finalize() ran once, but the frame
                    # stayed unread: the survivor was still answering requests that were in flight
                    # when mosaik closed the connection, and its connection broke under those
                    # replies (EPIPE) before it got to the stop frame.  Stopped exactly once.
                    r.run.probe("stop_unread_connection_broke_under_replies")
                    continue
                if stops != 1:
                    viols.append({"kind": "survivor_not_stopped_once",
                                  "features": dict(feats, survivor="remote", count=min(stops, 2),
                                                   stuck_in_own_request=o in stuck),
                                  "detail": {"fault": f, "survivor": o, "stop_frames": stops,
                                             "finalize_calls": fin}})
        # (4) nothing left behind
        if not r.world_info.get("loop_closed_by_mosaik"):
            viols.append({"kind": "loop_not_closed", "features": feats,
                          "detail": {"fault": f, "outcome": list(oc),
                                     "shutdown": [h for h in hist if h[0] in ("shutdown_exc", "shutdown_stuck")]}})
        left = [h[1] for h in hist if h[0] == "node_left_behind"]
        if left:
            viols.append({"kind": "process_left_behind",
                          "features": dict(feats, stuck_in_own_request=all(x in stuck for x in left)),
                          "detail": {"fault": f, "nodes": left}})
        open_tr = []
        for n in r.run.all_nodes:
            if n.t_mosaik is not None and not (n.t_mosaik.closing or n.t_mosaik.lost):
                open_tr.append((n.t_node.sid, "mosaik side"))
        if open_tr:
            viols.append({"kind": "socket_left_open", "features": feats,
                          "detail": {"fault": f, "open": open_tr}})
        if r.stats["pending_at_close"]:
            viols.append({"kind": "pending_loop_work", "features": feats,
                          "detail": {"fault": f, "pending": r.stats["pending_at_close"]}})
    return viols, True, r


def run_case(case, prop) -> Dict[str, Any]:
    if case.get("start_phase"):
        return run_start_case(case, prop)
    sc = case["scenario"]
    sp = case["schedule"]
    rm = RM(sc)
    out = {"runs": 0, "violations": [], "stats": {}, "fps": set(), "ntfps": set(),
           "scen": {h64(json.dumps(sc, sort_keys=True))}, "sim_time": 0.0, "steps": 0,
           "aborted": 0, "completed": 0}
    st = out["stats"]
    if any(v is not None for v in rm.verdicts) or rm.unresolved_cycles() or len(sc["sims"]) < 2:
        st["invalid_scenario"] = 1
        out["digest"] = "invalid"
        return out
    digs = []
    base = runner.execute(sc, sp)
    out["runs"] += 1
    digs.append(digest(base.hist))
    last_req = {}
    for h in base.hist:
        if h[0] == "begin" and h[1] in ("setup_done", "step", "get_data"):
            last_req[h[2]] = max(last_req.get(h[2], -1), h[5])
    if case.get("faults") is not None and case.get("second") is not None:
        viols, fired, r = check_one(sc, sp, case["faults"][0], last_req, case["second"])
        out["runs"] += 1
        for v in viols:
            if v["kind"] in ("failure_swallowed", "run_not_prompt"):
                continue
            v["digest"] = digest(r.hist)
            v["case"] = case
            out["violations"].append(v)
        out["digest"] = digest(r.hist)
        return out
    if case.get("faults") is not None:
        pts = case["faults"]
    else:
        if base.outcome[0] != "ok":
            st["baseline_not_ok"] = 1
            out["digest"] = digest(digs)
            return out
        # the fault-free run itself must shut down cleanly (stop/finalize exactly once)
        pts = fault_points(sc, base.hist)
        st["fault_points_total"] = len(pts)
        mp = case.get("max_points")
        if mp is not None and len(pts) > mp:
            rng = random.Random(h64(case.get("sample_seed", 0), "pts"))
            pts = rng.sample(pts, mp)
    reported = set()
    scen = next(iter(out["scen"]))
    st["profile_" + sp.get("profile", "sync")] = 1
    for f in pts:
        viols, fired, r = check_one(sc, sp, f, last_req)
        out["runs"] += 1
        out["sim_time"] += r.stats["vtime"]
        digs.append(digest(r.hist))
        out["fps"].add(pcore.fingerprint(r.hist))
        if not fired:
            st["fault_not_fired"] = st.get("fault_not_fired", 0) + 1
            continue
        out["aborted"] += 1
        st["fault_" + f["kind"]] = st.get("fault_" + f["kind"], 0) + 1
        st["fault_at_" + f["func"]] = st.get("fault_at_" + f["func"], 0) + 1
        if sp.get("slow"):
            # (fault runs in which one healthy simulator answers every request 30 s late)
            st["fault_with_slow_simulator"] = st.get("fault_with_slow_simulator", 0) + 1
        fr = next(h for h in r.hist if h[0] == "fault")
        if fr[5] > 0:
            st["faults_fired_with_work_in_flight"] = st.get("faults_fired_with_work_in_flight", 0) + 1
        if r.stats["drain_ran"]:
            st["post_mortem_drain_used"] = st.get("post_mortem_drain_used", 0) + 1
        if r.stats["probes"].get("write_to_dead_peer"):
            st["write_to_dead_peer"] = st.get("write_to_dead_peer", 0) + 1
        if r.run.probes.get("stop_unread_connection_broke_under_replies"):
            st["stop_unread_connection_broke_under_replies"] = \
                st.get("stop_unread_connection_broke_under_replies", 0) + 1
        if any(h[0] == "finalize" and i > next((j for j, x in enumerate(r.hist) if x[0] == "run_returned"), 0)
               for i, h in enumerate(r.hist)):
            st["finalize_after_run_returned"] = st.get("finalize_after_run_returned", 0) + 1
        out["ntfps"].add(h64(scen, json.dumps(sp, sort_keys=True), f["sid"], f["req"], f["kind"]))
        for v in viols:
            v["digest"] = digs[-1]
            v["case"] = {"scenario": sc, "schedule": sp, "faults": [f]}
            key = (v["kind"], json.dumps(v["features"], sort_keys=True))
            if key not in reported:
                reported.add(key)
                out["violations"].append(v)
    # double faults (thorough tier): a second simulator fails at a later request
    if case.get("double") and case.get("faults") is None and len(sc["sims"]) >= 3:
        rng = random.Random(h64(case.get("sample_seed", 0), "double"))
        allp = fault_points(sc, base.hist)
        for _ in range(min(case["double"], len(allp))):
            f1 = rng.choice(allp)
            cands = [p for p in allp if p["sid"] != f1["sid"] and p["req"] >= 1]
            if not cands:
                continue
            f2 = rng.choice(cands)
            viols, fired, r = check_one(sc, sp, f1, last_req, f2)
            out["runs"] += 1
            digs.append(digest(r.hist))
            if not fired:
                continue
            out["aborted"] += 1
            st["double_fault_runs"] = st.get("double_fault_runs", 0) + 1
            if sum(1 for h in r.hist if h[0] == "fault") >= 2:
                st["both_faults_fired"] = st.get("both_faults_fired", 0) + 1
            for v in viols:
                if v["kind"] in ("failure_swallowed", "run_not_prompt"):
                    continue      # (their reference points assume a single fault)
                v["digest"] = digs[-1]
                v["case"] = {"scenario": sc, "schedule": sp, "faults": [f1], "second": f2}
                key = (v["kind"], json.dumps(v["features"], sort_keys=True))
                if key not in reported:
                    reported.add(key)
                    out["violations"].append(v)
    out["sample"] = {"scenario_sims": [(s["sid"], s["type"], s["transport"]) for s in sc["sims"]],
                     "schedule": sp, "fault_points_run": pts[:3]}
    out["digest"] = digest(digs)
    return out


def shrink_candidates(case, prop):
    sc, sp, faults = case["scenario"], case["schedule"], case.get("faults")
    if not faults:
        return
    f = faults[0]
    second = case.get("second")
    extra = {"second": second} if second else {}
    if second:
        yield {"scenario": sc, "schedule": sp, "faults": [f]}          # is the first fault enough?
        yield {"scenario": sc, "schedule": sp, "faults": [second]}
    for cand in pcore.shrink_candidates({"scenario": sc, "schedules": [sp]}, prop):
        sc2 = cand["scenario"]
        if f["sid"] not in [s["sid"] for s in sc2["sims"]]:
            continue
        if second and second["sid"] not in [s["sid"] for s in sc2["sims"]]:
            continue
        # keep the transport class of the faulty simulator
        t_old = next(s["transport"] for s in sc["sims"] if s["sid"] == f["sid"])
        t_new = next(s["transport"] for s in sc2["sims"] if s["sid"] == f["sid"])
        if (t_old in LOCAL) != (t_new in LOCAL):
            continue
        if cand["schedules"][0].get("profile") == "sync" and any(
                s["transport"] not in LOCAL for s in sc2["sims"]):
            pass
        yield {"scenario": sc2, "schedule": cand["schedules"][0], "faults": [f], **extra}
    if f["req"] > 0:
        for n in (0, 1, 2, f["req"] - 1):
            if 0 <= n < f["req"]:
                yield {"scenario": sc, "schedule": sp, "faults": [dict(f, req=n)], **extra}
