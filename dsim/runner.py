"""Build a mosaik World from a scenario record and execute it under the DetLoop."""
from __future__ import annotations

import asyncio
import contextlib
import gc
import io
import os
import traceback
import warnings
from typing import Any, Dict, List, Optional

from . import ctx, seams
from .ctx import Run, Schedule
from .loop import DetLoop, Deadlock, Livelock, SyncHang, h64
import signal

import mosaik
from mosaik import scheduler
from mosaik.exceptions import ScenarioError, SimulationError
import mosaik._debug as _debug

seams.install()
from . import mutants as _mutants  # noqa: E402
ACTIVE_MUTANT = _mutants.apply_from_env()      # sensitivity self-test only (DSIM_MUTANT)

_ORIG_STEP = scheduler.step
_DEVNULL = io.StringIO()


class Result:
    __slots__ = ("outcome", "hist", "vt", "run", "connects", "stats", "scenario",
                 "sched", "faults", "world_info", "tb")

    def __init__(self):
        self.outcome = None
        self.hist = None
        self.vt = None
        self.run = None
        self.connects = []
        self.stats = {}
        self.world_info = {}
        self.tb = None


WATCHDOG_S = float(os.environ.get("DSIM_WATCHDOG_S", "8"))


_WD_SCALE = [1.0]


def _on_watchdog(signum, frame):
    raise SyncHang("watchdog: synchronous code did not return")


def _arm_watchdog():
    try:
        signal.signal(signal.SIGALRM, _on_watchdog)
        signal.setitimer(signal.ITIMER_REAL, WATCHDOG_S * _WD_SCALE[0])
    except ValueError:      # not in the main thread
        pass


def _rearm_watchdog():
    try:
        signal.setitimer(signal.ITIMER_REAL, WATCHDOG_S * _WD_SCALE[0])
    except ValueError:
        pass


def _disarm_watchdog():
    try:
        signal.setitimer(signal.ITIMER_REAL, 0)
    except ValueError:
        pass


def sim_config_for(scenario) -> Dict[str, Any]:
    cfg = {}
    for i, s in enumerate(scenario["sims"]):
        tr = s.get("transport", "gated")
        stub = s.get("stub", "stub")
        name = f"N{i}"
        if tr == "stock":
            k = seams.STUB_CLASSES[stub]
            attr = next(n for n, v in vars(__import__(k.__module__, fromlist=["x"])).items() if v is k)
            e = {"python": f"{k.__module__}:{attr}"}
        elif tr == "gated":
            e = {"dsim": stub}
        elif tr == "remote":
            e = {"connect": f"sim:{i}"}
        elif tr == "cmd":
            e = {"cmd": f"dsim-node %(addr)s {i}"}
        else:
            raise ValueError(tr)
        if s.get("cfg_api") is not None:
            e["api_version"] = s["cfg_api"]
        cfg[name] = e
    return cfg


def start_order(scenario):
    """DFS over the group tree; at each level the items (simulators and child groups)
    are ordered by the order seed (declaration order if None).  Yields
    ('sim', idx) / ('enter', g) / ('leave', g)."""
    groups = scenario.get("groups") or [None]
    seed = scenario.get("config", {}).get("start_seed")
    children = {g: [] for g in range(len(groups))}
    for g, p in enumerate(groups):
        if p is not None:
            children[p].append(g)
    out = []

    def visit(g):
        items = [("sim", i) for i, s in enumerate(scenario["sims"]) if s.get("group", 0) == g]
        items += [("group", c) for c in children[g]]
        if seed is not None:
            items.sort(key=lambda it: h64(seed, "start", it))
        for kind, x in items:
            if kind == "sim":
                out.append(("sim", x))
            else:
                out.append(("enter", x))
                visit(x)
                out.append(("leave", x))
    visit(0)
    return out


def _where(tb) -> str:
    """file:function of the innermost frame inside the mosaik package."""
    w = "?"
    for fr in traceback.extract_tb(tb):
        if "/mosaik/" in fr.filename and "/dsim/" not in fr.filename:
            w = f"{os.path.basename(fr.filename)}:{fr.name}"
    return w


def execute(scenario: Dict[str, Any], sched_spec: Optional[Dict[str, Any]] = None,
            faults: Optional[List[Dict[str, Any]]] = None, run_id=0,
            max_callbacks: int = 400_000, hooks=None) -> Result:
    cfg = scenario.get("config", {})
    sched = Schedule(sched_spec)
    run = Run(run_id, scenario, sched, faults)
    loop = DetLoop(sched_seed=sched.seed, iteration_cost=cfg.get("iteration_cost", 0.0),
                   max_callbacks=max_callbacks)
    run.loop = loop
    if cfg.get("rt_factor"):
        # real-time waiting loops poll the wall clock with timers: a hung run is neither idle
        # (deadlock) nor busy (callback cap).  It is recognised by virtual time passing without
        # anything observable happening, for much longer than any delay this run can contain.
        period = cfg["rt_factor"] * cfg.get("time_resolution", 1.0)
        blocks = [max(s_["beh"].get("block") or [0]) for s_ in scenario["sims"]]
        loop.max_idle_vtime = 20.0 + 30.0 * period + 3.0 * sched.max_delay() + 3.0 * max(blocks, default=0)

    def _exc_handler(_loop, context, _run=run):
        _run.loop_exceptions.append(str(context.get("message"))[:200])
    loop.set_exception_handler(_exc_handler)

    def _final_cleanup(_run=run, _loop=loop):
        left = [n for n in _run.all_nodes if n.task is not None and not n.task.done()]
        for n in left:
            _run.rec("node_left_behind", n.t_node.sid)
            n.task.cancel()
        if left:
            _loop.drain_more()
    loop.final_cleanup = _final_cleanup
    # the watchdog measures one synchronous stretch: it is re-armed at every loop iteration
    loop.on_iteration = _rearm_watchdog
    ctx.set_current(run)
    asyncio.set_event_loop(loop)
    res = Result()
    _arm_watchdog()
    res.scenario = scenario
    res.sched = sched
    res.faults = faults or []
    res.run = run
    world = None
    if hooks and hooks.get("pre"):
        hooks["pre"](run)
    try:
        with warnings.catch_warnings(record=True) as wlist, \
                contextlib.redirect_stdout(_DEVNULL):
            warnings.simplefilter("always")
            try:
                world = mosaik.World(
                    sim_config_for(scenario),
                    mosaik_config=cfg.get("mosaik_config"),
                    time_resolution=cfg.get("time_resolution", 1.0),
                    debug=cfg.get("debug", False),
                    cache=cfg.get("cache", True),
                    # (mli_late: the bound is assigned to the public attribute after the simulators
                    # have been started, instead of being passed to the constructor)
                    max_loop_iterations=(cfg.get("mli", 100) if not cfg.get("mli_late") else
                                         (7 if cfg.get("mli", 100) != 7 else 9)),
                    asyncio_loop=loop,
                    skip_greetings=True,
                )
                run.world = world
                res.outcome = _drive(world, scenario, run, res, hooks)
            except Deadlock:
                res.outcome = ("deadlock", "setup")
            except SyncHang as e:
                res.outcome = ("hang", _where(e.__traceback__))
                res.tb = traceback.format_exc()
                _arm_watchdog()      # for the clean-up below
            finally:
                run.rec("run_returned")
                res.world_info["loop_closed_by_mosaik"] = loop.is_closed()
                res.world_info["close_vtime"] = getattr(loop, "close_vtime", None) if loop.is_closed() else None
                res.world_info["deadlock_seen"] = loop.deadlocked
                res.world_info["livelock_seen"] = loop.livelocked
                try:
                    if world is not None and not loop.is_closed():
                        run.rec("harness_cleanup")
                        if res.outcome and res.outcome[0] in ("deadlock", "livelock") \
                                and res.outcome[1:2] == ("setup",):
                            pass
                        else:
                            try:
                                world.shutdown()
                            except (Deadlock, Livelock, SyncHang):
                                run.rec("shutdown_stuck")
                            except Exception as e:  # noqa: BLE001
                                run.rec("shutdown_exc", type(e).__name__, str(e)[:200])
                finally:
                    if not loop.is_closed():
                        try:
                            loop.close()
                        except Exception:  # noqa: BLE001
                            pass
                    if scheduler.step is not _ORIG_STEP:
                        res.world_info["debug_left_enabled"] = True
                        _debug.disable()
                    _DEVNULL.seek(0)
                    _DEVNULL.truncate()
            for w in wlist:
                # only warnings raised by mosaik itself; finalisers of garbage left by
                # earlier (aborted) runs may emit Resource/RuntimeWarnings at any time
                if issubclass(w.category, (ResourceWarning, RuntimeWarning)):
                    continue
                if "/mosaik/" not in (w.filename or ""):
                    continue
                run.rec("warning", w.category.__name__, str(w.message)[:300])
    finally:
        _disarm_watchdog()
        ctx.set_current(None)
        asyncio.set_event_loop(None)
        del seams._pending_node[:]
        if res.outcome is None or res.outcome[0] != "ok":
            with warnings.catch_warnings():
                warnings.simplefilter("ignore")
                gc.collect()
    res.hist = run.hist.rec
    res.vt = run.hist.vt
    res.stats = {
        "callbacks": loop.callbacks_run,
        "iterations": loop.iterations,
        "vtime": loop.time(),
        "clock_jumps": loop.clock_jumps,
        "ext_fired": loop.ext_fired,
        "ties": loop.ties_broken,
        "drain_ran": loop.drain_ran,
        "drain_dropped": loop.drain_dropped,
        "pending_at_close": len(getattr(loop, "pending_at_close", ())),
        "probes": dict(run.probes),
    }
    return res


def _drive(world, scenario, run, res, hooks):
    cfg = scenario.get("config", {})
    ents: Dict[int, list] = {}
    stack = contextlib.ExitStack()
    group_cms = {}
    # ---- start simulators
    try:
        with stack:
            for kind, x in start_order(scenario):
                if kind == "enter":
                    cm = world.group()
                    group_cms[x] = cm
                    cm.__enter__()
                elif kind == "leave":
                    group_cms.pop(x).__exit__(None, None, None)
                else:
                    s = scenario["sims"][x]
                    run.current_spec = s
                    try:
                        params = dict(s.get("params", {}))
                        # (cfg_entry: started from another simulator's sim config entry)
                        mf = world.start(f"N{s.get('cfg_entry', x)}", sim_id=s["sid"], spec=s, **params)
                    except (Deadlock, Livelock, SyncHang):
                        raise
                    except SystemExit as e:
                        run.rec("start_result", s["sid"], "SystemExit", str(e)[:200])
                        return ("start_error", s["sid"], "SystemExit", str(e)[:120])
                    except BaseException as e:  # noqa: BLE001
                        run.rec("start_result", s["sid"], type(e).__name__, str(e)[:300])
                        return ("start_error", s["sid"], type(e).__name__, str(e)[:120])
                    run.rec("start_result", s["sid"], "ok", None)
                    for j_, (name_, arg_) in enumerate(s.get("extra_calls", ())):
                        try:
                            res_ = getattr(mf, name_)(arg_)
                            run.rec("extra_result", s["sid"], name_, arg_, res_)
                        except (Deadlock, Livelock, SyncHang):
                            raise
                        except BaseException as e:  # noqa: BLE001
                            run.rec("extra_result", s["sid"], name_, arg_, "raised:" + type(e).__name__)
                    ents[x] = mf.M.create(s.get("n_ent", 1))
                    if s.get("init_event") is not None:
                        world.set_initial_event(s["sid"], s["init_event"])
    except Deadlock:
        return ("deadlock", "setup")
    # ---- connect
    conns = scenario.get("conns", [])
    order = list(range(len(conns)))
    cseed = cfg.get("connect_seed")
    if cseed is not None:
        order.sort(key=lambda i: h64(cseed, "conn", i))
    verdicts = {}
    for i in order:
        c = conns[i]
        kw = {}
        if c.get("shift"):
            kw["time_shifted"] = True if (c["shift"] == 1 and c.get("shift_bool")) else c["shift"]
        if c.get("weak"):
            kw["weak"] = True
        if c.get("init") is not None:
            kw["initial_data"] = dict(c["init"])
        if c.get("async"):
            kw["async_requests"] = True
        pairs = [p[0] if (p[0] == p[1] and c.get("pair_str")) else tuple(p)
                 for p in c.get("pairs", [])]
        try:
            src_e = ents[c["src"]][c.get("se", 0)]
            dst_e = ents[c["dst"]][c.get("de", 0)]
            if c.get("sc"):
                src_e = next(ch for ch in src_e.children if ch.eid.endswith("c"))
            if c.get("dc"):
                dst_e = next(ch for ch in dst_e.children if ch.eid.endswith("c"))
            world.connect(src_e, dst_e, *pairs, **kw)
            verdicts[i] = ("ok", None)
        except ScenarioError as e:
            verdicts[i] = ("ScenarioError", str(e)[:400])
        except SyncHang:
            raise
        except BaseException as e:  # noqa: BLE001
            verdicts[i] = (type(e).__name__, str(e)[:400])
            res.tb = traceback.format_exc()
        run.rec("connect", i, verdicts[i][0])
    res.connects = [verdicts[i] for i in range(len(conns))]
    if cfg.get("stop_on_connect_error", False) and any(v[0] != "ok" for v in res.connects):
        return ("connect_error",)
    if hooks and hooks.get("bulk"):
        # (C18: connections made by mosaik.util's bulk helpers on the real World)
        hooks["bulk"](run, world, ents)
    if cfg.get("mli_late"):
        world.max_loop_iterations = cfg.get("mli", 100)
    if hooks and hooks.get("before_run"):
        hooks["before_run"](run, world)
    if cfg.get("no_run"):
        return ("not_run",)
    # ---- run
    if cfg.get("setup_gap"):
        # the scenario script takes a while between starting/connecting the simulators and run()
        # (synchronously: the virtual wall clock advances, nothing else happens)
        run.loop._vtime += cfg["setup_gap"]
    run.rec("run_called")
    try:
        world.run(until=scenario["until"], rt_factor=cfg.get("rt_factor"),
                  rt_strict=cfg.get("rt_strict", False), print_progress=False,
                  lazy_stepping=cfg.get("lazy", True))
        return ("ok",)
    except ScenarioError as e:
        return ("scenario_error", str(e)[:300], _where(e.__traceback__))
    except Deadlock:
        return ("deadlock", "run")
    except Livelock:
        return ("livelock", "run")
    except SyncHang:
        raise
    except SimulationError as e:
        res.tb = traceback.format_exc()
        return ("exception", "SimulationError", str(e)[:300], _where(e.__traceback__))
    except BaseException as e:  # noqa: BLE001
        res.tb = traceback.format_exc()
        return ("exception", type(e).__name__, str(e)[:300], _where(e.__traceback__))
