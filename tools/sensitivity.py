#!/venv/bin/python
"""Sensitivity self-test: every in-memory mutant must be reported by the check of its
property within the quick budget.  Writes evidence/sensitivity.json."""
import json, os, subprocess, sys, time
ROOT = os.path.dirname(os.path.dirname(os.path.abspath(__file__)))
sys.path.insert(0, ROOT)
from dsim.mutants import MUTANTS
only = sys.argv[1:]
res = {}
for name, (prop, _) in MUTANTS.items():
    if only and name not in only and prop not in only:
        continue
    env = dict(os.environ, DSIM_MUTANT=name)
    t0 = time.time()
    secs = {"c14_stop_waits_for_open_request": "55"}.get(name, "20")     # (needs the full quick budget of C14)
    p = subprocess.run([os.path.join(ROOT, "check"), prop, "--seconds", secs, "--no-evidence"],
                       capture_output=True, text=True, env=env, cwd=ROOT, timeout=900)
    lines = [l for l in p.stdout.splitlines() if l.startswith(("VIOLATION", "violation kind"))]
    res[name] = {"property": prop, "exit": p.returncode, "detected": p.returncode == 1,
                 "first": lines[:2], "wall_s": round(time.time() - t0, 1)}
    print(name, prop, "DETECTED" if p.returncode == 1 else f"MISSED (exit {p.returncode})", lines[:1], flush=True)
    if p.returncode not in (0, 1):
        print(p.stdout[-800:], p.stderr[-800:])
out = os.path.join(ROOT, "evidence", "sensitivity.json")
old = {}
if os.path.exists(out) and only:
    old = json.load(open(out)).get("mutants", {})
old.update(res)
json.dump({"mutants": old, "detected": sum(1 for v in old.values() if v["detected"]), "total": len(old)},
          open(out, "w"), indent=1)
