#!/bin/bash
# usage: tools/run_all.sh [quick|thorough] [props...]   -- runs the registered checks one after another
cd "$(dirname "$0")/.."
tier=${1:-quick}; shift
props=${@:-C01 C02 C03 C04 C05 C06 C07 C09 C10 C11 C13 C14 C15 C16 C17 C18}
rc=0
for p in $props; do
  out=$(./check $p --tier $tier 2>&1); code=$?
  echo "$p exit=$code $(echo "$out" | tail -1)"
  echo "$out" | grep -E "^(VIOLATION|HARNESS-ERROR|KNOWN-FINDING)" | cut -c1-160
  [ $code -ne 0 ] && rc=1
done
exit $rc
