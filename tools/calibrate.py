#!/venv/bin/python
"""Calibration (DESIGN 8 iii): the repository's own hand-written scenario tests are executed
with their own simulators (stock LocalProxy / RemoteProxy, real processes where the tests use
them, real clock), only *recorded*; the reference model and the C01/C02/C03/C07/C10 oracles
must be silent on them.  Writes evidence/calibration.json."""
import copy, glob, importlib, json, os, sys, collections
ROOT = os.path.dirname(os.path.dirname(os.path.abspath(__file__)))
sys.path.insert(0, ROOT); sys.path.insert(0, "/repo"); os.chdir("/repo")
import warnings; warnings.simplefilter("ignore")
import mosaik
from mosaik import scenario, proxies
from loguru import logger
logger.remove()
import tqdm as _tq; _tq.tqdm.monitor_interval = 0
from tests.scenarios.conftest import SIM_CONFIG
from dsim.refmodel import RM
from dsim.oracles import core as ocore

HIST = []; CONNS = []; WORLD = [None]; INIT_EVENTS = {}; RUNARGS = {}; NREQ = collections.Counter()

def base_proxy(p):
    while hasattr(p, "_out"):
        p = p._out
    return p

def sid_of(proxy):
    w = WORLD[0]
    if w is None:
        return None
    for sid, r in w.sims.items():
        if base_proxy(r._proxy) is proxy:
            return sid
    return None

def wrap_send(cls):
    orig = cls.send
    async def send(self, request):
        func = request[0]
        sid = sid_of(self) if func in ("step", "get_data") else None
        if sid is not None:
            r = WORLD[0].sims[sid]
            tau = tuple(r.current_step.tiers) if r.current_step else None
            n = NREQ[sid]; NREQ[sid] += 1
            args = copy.deepcopy(list(request[1]))
            if func == "step" and len(args) < 3:
                args.append(None)
            HIST.append(("begin", func, sid, tau, tuple(args), n))
            res = await orig(self, request)
            HIST.append(("end", func, sid, copy.deepcopy(res), n))
            return res
        return await orig(self, request)
    cls.send = send
wrap_send(proxies.LocalProxy); wrap_send(proxies.RemoteProxy)

from mosaik import simmanager
_orig_set_event = simmanager.MosaikRemote.set_event
async def _set_event(self, event_time):
    HIST.append(("set_event_processed", self.sid, event_time))
    return await _orig_set_event(self, event_time)
simmanager.MosaikRemote.set_event = _set_event

orig_connect = scenario.World.connect
def connect(self, src, dest, *pairs, async_requests=False, time_shifted=False, initial_data={}, weak=False):
    WORLD[0] = self
    CONNS.append(dict(src=src, dst=dest, pairs=[[p, p] if isinstance(p, str) else list(p) for p in pairs],
                      shift=int(time_shifted), weak=bool(weak), init=dict(initial_data), async_=async_requests))
    return orig_connect(self, src, dest, *pairs, async_requests=async_requests, time_shifted=time_shifted,
                        initial_data=initial_data, weak=weak)
scenario.World.connect = connect
orig_sie = scenario.World.set_initial_event
def sie(self, sid, time=0):
    WORLD[0] = self; INIT_EVENTS[sid] = time
    return orig_sie(self, sid, time)
scenario.World.set_initial_event = sie
orig_run = scenario.World.run
def run(self, until, **kw):
    WORLD[0] = self; RUNARGS.update(until=until, **kw)
    return orig_run(self, until, **kw)
scenario.World.run = run

def build_scenario(world, until):
    groups = [None]; gidx = {}
    def gi(g):
        if g is None or g.parent is None:
            return 0
        if id(g) not in gidx:
            p = gi(g.parent)
            groups.append(p); gidx[id(g)] = len(groups) - 1
        return gidx[id(g)]
    sims = []; sidx = {}
    facs = {}
    for c in CONNS:
        for ent in (c["src"], c["dst"]):
            facs[ent.sid] = ent.model_mock
    for sid, r in world.sims.items():
        mm = facs.get(sid)
        desc = None; grp = 0
        if mm is not None:
            desc = mm._proxy.meta["models"][mm.name]
            grp = gi(mm._factory._group)
        else:
            grp = 0 if len(r.progress.time) == 1 else None
        if grp is None:      # unconnected simulator inside a group: depth only
            g = 0
            for _ in range(len(r.progress.time) - 1):
                groups.append(g); g = len(groups) - 1
            grp = g
        s = {"sid": sid, "type": r.type, "group": grp, "desc": desc or {"attrs": []}}
        if sid in INIT_EVENTS:
            s["init_event"] = INIT_EVENTS[sid]
        sidx[sid] = len(sims); sims.append(s)
    conns = []
    for c in CONNS:
        conns.append({"src": sidx[c["src"].sid], "dst": sidx[c["dst"].sid], "src_eid": c["src"].eid,
                      "dst_eid": c["dst"].eid, "pairs": c["pairs"], "shift": c["shift"], "weak": c["weak"],
                      "init": c["init"] or None, "async": c["async_"]})
    return {"groups": groups, "sims": sims, "conns": conns, "until": until, "config": {}}

def main():
    only = sys.argv[1:]
    res = {}
    tot = collections.Counter()
    for f in sorted(glob.glob("/repo/tests/scenarios/test_*.py")):
        name = os.path.basename(f)[:-3]
        if only and not any(o in name for o in only):
            continue
        for cache in (True, False):
            HIST.clear(); CONNS.clear(); INIT_EVENTS.clear(); RUNARGS.clear(); NREQ.clear(); WORLD[0] = None
            mod = importlib.import_module("tests.scenarios." + name)
            world = mosaik.World(SIM_CONFIG, debug=True, cache=cache, skip_greetings=True)
            WORLD[0] = world
            try:
                mod.test_scenario(world); tres = "pass"
            except BaseException as e:
                tres = "TESTFAIL " + type(e).__name__
            finally:
                try: world.shutdown()
                except Exception: pass
            key = f"{name[5:]}[cache={cache}]"
            try:
                sc = build_scenario(world, RUNARGS.get("until", 0))
                sc["config"] = {"cache": cache, "lazy": RUNARGS.get("lazy_stepping", True),
                                "rt_factor": RUNARGS.get("rt_factor")}
                rm = RM(sc)
                A = ocore.analyse(list(HIST), rm, ("ok",) if tres == "pass" else ("exception", tres, "", ""), sc["config"])
                viol = {p: [dict(v) for v in vs[:2]] for p, vs in A.viol.items()}
                notes = []
                if any(c.get("async") for c in sc["conns"]):
                    notes.append("uses async_requests/set_data (inputs from set_data are outside the core oracle)")
                    viol.pop("C03", None)
                if rm.unresolved_cycles() or any(v is not None for v in rm.verdicts):
                    notes.append("RM rejects the scenario: " + repr(rm.verdicts))
                res[key] = {"test": tres, "steps": A.n_steps, "violations": viol, "notes": notes}
            except Exception as e:
                import traceback
                res[key] = {"test": tres, "harness_error": traceback.format_exc()[-600:]}
                viol = {"HARNESS": 1}
            tot[tres] += 1; tot["silent" if not viol else "NOT-SILENT"] += 1
            print(f"{key:75s} {tres:10s} steps={res[key].get('steps', '?'):>4} "
                  f"{'silent' if not viol else 'VIOLATIONS ' + json.dumps(viol, default=repr)[:300]}", flush=True)
    print(dict(tot))
    if not only:
        json.dump({"scenarios": res, "summary": dict(tot)}, open(os.path.join(ROOT, "evidence", "calibration.json"), "w"),
                  indent=1, default=repr)
    return 0 if tot["NOT-SILENT"] == 0 else 1

if __name__ == "__main__":
    sys.exit(main())
