#!/venv/bin/python
"""Re-execute the committed replays of the open known findings and store the history digest
of the current machinery in their 'expect' block (the digest changes whenever the recorded
history format or the transport model changes; the violation kind is what is matched)."""
import glob, json, os, sys
ROOT = os.path.dirname(os.path.dirname(os.path.abspath(__file__)))
if os.environ.get("PYTHONHASHSEED") != "0":
    os.environ["PYTHONHASHSEED"] = "0"
    os.execv(sys.executable, [sys.executable] + sys.argv)
sys.path.insert(0, ROOT)
from dsim.engine import prop_module  # noqa: E402
for path in sorted(glob.glob(os.path.join(ROOT, "replays", "known", "*.json"))):
    rec = json.load(open(path))
    prop = rec["property"]
    res = prop_module(prop).run_case(rec["case"], prop)
    hit = [v for v in res.get("violations", []) if v["kind"] == rec["expect"]["kind"]]
    if not hit:
        print("STALE", path)
        continue
    if hit[0].get("digest") != rec["expect"].get("digest"):
        rec["expect"]["digest"] = hit[0].get("digest")
        json.dump(rec, open(path, "w"), indent=1)
        print("updated", os.path.basename(path))
