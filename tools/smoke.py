#!/venv/bin/python
"""5-second smoke self-test used by setup_cmd: one scenario over all four transports,
same seed twice -> identical history digests."""
import os, sys
sys.path.insert(0, os.path.dirname(os.path.dirname(os.path.abspath(__file__))))
import warnings; warnings.filterwarnings("ignore")
from dsim import runner
from dsim.engine import digest
sc = {'groups': [None], 'sims': [
  {'sid': 'A', 'type': 'time-based', 'group': 0, 'transport': 'gated', 'beh': {'bseed': 1, 'step_sizes': [1]}},
  {'sid': 'B', 'type': 'time-based', 'group': 0, 'transport': 'remote', 'beh': {'bseed': 2, 'step_sizes': [2]}},
  {'sid': 'C', 'type': 'hybrid', 'group': 0, 'transport': 'cmd', 'beh': {'bseed': 3, 'p_self': 0.5, 'p_out': 0.8}},
  {'sid': 'D', 'type': 'event-based', 'group': 0, 'transport': 'stock', 'beh': {'bseed': 4, 'p_self': 0.0, 'p_out': 0.8}}],
 'conns': [{'src': 0, 'dst': 1, 'pairs': [['p_out', 'm_in']]}, {'src': 1, 'dst': 2, 'pairs': [['p_out', 't_in']]},
           {'src': 2, 'dst': 3, 'pairs': [['e_out', 't_in']]}],
 'until': 5, 'config': {'cache': True, 'lazy': True}}
for prof in ('sync', 'uniform', 'ties'):
    a = runner.execute(sc, {'profile': prof, 'seed': 3})
    b = runner.execute(sc, {'profile': prof, 'seed': 3})
    assert a.outcome == b.outcome, (a.outcome, b.outcome)
    assert digest(a.hist) == digest(b.hist), 'non-deterministic'
print('smoke ok')
