"""Reference model (DESIGN 5).  Shares no code with mosaik: own attribute classifier,
own tuple arithmetic, own cycle search.  It never predicts an execution, it judges a
recorded history."""
from __future__ import annotations

import itertools
from typing import Any, Dict, List, Optional, Tuple

NOINIT = "<no-initial-data>"


# ------------------------------------------------------------------ 5.1 attributes
def classify(desc: Dict[str, Any], typ: str):
    """Return (inputs, trigger, outputs, persistent) as predicates over attr names,
    following the documented defaults."""
    attrs = set(desc.get("attrs", []))
    any_in = bool(desc.get("any_inputs", False))

    def is_input(a):
        return any_in or a in attrs

    def is_output(a):
        return a in attrs

    if typ == "time-based":
        def is_trigger(a):
            return False

        def is_persistent(a):
            return True
    elif typ == "event-based":
        def is_trigger(a):
            return True

        def is_persistent(a):
            return False
    else:
        if "trigger" in desc:
            trig = set(desc["trigger"])

            def is_trigger(a):
                return a in trig
        elif "non-trigger" in desc:
            nontrig = set(desc["non-trigger"])

            def is_trigger(a):
                return a not in nontrig
        else:
            def is_trigger(a):
                return False
        if "non-persistent" in desc:
            nonp = set(desc["non-persistent"])

            def is_persistent(a):
                return a not in nonp
        else:
            def is_persistent(a):
                return True
    return is_input, is_trigger, is_output, is_persistent


# ------------------------------------------------------------------ 5.3 groups / time
def group_paths(scenario) -> Dict[int, Tuple[int, ...]]:
    groups = scenario.get("groups") or [None]
    out = {}
    for g in range(len(groups)):
        p = []
        x: Optional[int] = g
        while x is not None:
            p.append(x)
            x = groups[x]
        out[g] = tuple(reversed(p))
    return out


def common_len(pu, pv) -> int:
    n = 0
    while n < len(pu) and n < len(pv) and pu[n] == pv[n]:
        n += 1
    return n


class Conn:
    __slots__ = ("u", "ue", "ua", "v", "ve", "va", "k", "weak", "init", "trig", "pers",
                 "ci", "pi", "c", "dv", "src_full", "id", "carve2")

    def arr(self, sigma):
        c = self.c
        a = list(sigma[:c])
        a[0] += self.k
        if self.weak:
            a[c - 1] += 1
        return tuple(a) + (0,) * (self.dv - c)

    def kind(self):
        return ("weak" if self.weak else "plain") + (f"+shift{self.k}" if self.k else "") + \
            ("/pers" if self.pers else "/event") + ("->trig" if self.trig else "->nontrig")


class RM:
    """Static part of the reference model for one scenario."""

    def __init__(self, scenario, model_descs=None):
        from .stubs import model_desc, child_desc
        self.sc = scenario
        self.until = scenario["until"]
        self.paths = group_paths(scenario)
        self.sims = scenario["sims"]
        self.sid_idx = {s["sid"]: i for i, s in enumerate(self.sims)}
        self.path_of = {s["sid"]: self.paths[s.get("group", 0)] for s in self.sims}
        self.depth = {sid: len(p) for sid, p in self.path_of.items()}
        self.type = {}
        self.cls = {}
        self.cls_child = {}      # sid -> classifier of the child entities' model
        for s in self.sims:
            t = s["type"] if not s.get("omit_type") else "time-based"
            self.type[s["sid"]] = t
            d = s.get("desc") or model_desc(s["type"], s.get("meta_style", 0), s.get("any_inputs", False))
            self.cls[s["sid"]] = classify(d, t)
            if s.get("child"):
                self.cls_child[s["sid"]] = classify(child_desc(s["type"], s.get("meta_style", 0)), t)
        self.conns: List[Conn] = []
        self.verdicts: List[Optional[str]] = []   # per connect call: None=accept, else reason
        self.async_links = []                     # (u, v): v may call set_data/get_data on u
        self._build()

    def _build(self):
        for ci, c in enumerate(self.sc.get("conns", [])):
            u = self.sims[c["src"]]["sid"]
            v = self.sims[c["dst"]]["sid"]
            pu, pv = self.path_of[u], self.path_of[v]
            cl = common_len(pu, pv)
            k = int(c.get("shift", 0) or 0)
            weak = bool(c.get("weak"))
            init = c.get("init")
            reasons = []
            # (an entity is judged by its own model: children have another one than their parent)
            _, u_trig, u_out, u_pers = (self.cls_child if c.get("sc") else self.cls)[u]
            v_in, v_trig, _, _ = (self.cls_child if c.get("dc") else self.cls)[v]
            for pi, (ua, va) in enumerate(c.get("pairs", [])):
                why = []
                if not u_out(ua):
                    why.append("src attr")
                if not v_in(va):
                    why.append("dst attr")
                has_init = init is not None and ua in init
                if (k or weak) and v_in(va) and not v_trig(va) and not has_init:
                    why.append("needs initial data")
                if weak and cl <= 1:
                    why.append("weak outside group")
                if why:
                    reasons.append((pi, why))
                    continue
                e = Conn()
                e.u, e.ue, e.ua = u, c.get("src_eid") or (f"e{c.get('se', 0)}" + ("c" if c.get("sc") else "")), ua
                e.v, e.ve, e.va = v, c.get("dst_eid") or (f"e{c.get('de', 0)}" + ("c" if c.get("dc") else "")), va
                e.k, e.weak = k, weak
                e.init = init[ua] if has_init else NOINIT
                e.trig = v_trig(va)
                e.pers = u_pers(ua)
                e.ci, e.pi = ci, pi
                e.c, e.dv = cl, len(pv)
                e.src_full = f"{u}.{e.ue}"
                e.id = len(self.conns)
                e.carve2 = (e.init is not NOINIT) and not e.pers
                self.conns.append(e)
            self.verdicts.append(None if not reasons else repr(reasons))
            if c.get("async"):
                self.async_links.append((u, v))
        # ---- pairs (u, v) of one group for which no data path from u to v resets a sub-time
        # tier (every hop of every walk stays inside groups that contain that group): for them
        # lazy stepping orders complete tiered times, not just main times (C10)
        INF = 99
        sids = [s["sid"] for s in self.sims]
        cut = {a: {b: INF for b in sids} for a in sids}
        for e in self.conns:
            cut[e.u][e.v] = min(cut[e.u][e.v], e.c)
        changed = True
        while changed:
            changed = False
            for w in sids:
                for a in sids:
                    caw = cut[a][w]
                    if caw == INF:
                        continue
                    for b in sids:
                        if cut[w][b] == INF:
                            continue
                        x = min(caw, cut[w][b])
                        if x < cut[a][b]:
                            cut[a][b] = x
                            changed = True
        self.lazy_full = set()
        for a in sids:
            for b in sids:
                if a != b and self.path_of[a] == self.path_of[b] and len(self.path_of[a]) >= 2 \
                        and cut[a][b] == len(self.path_of[a]):
                    self.lazy_full.add((a, b))
        self.into: Dict[str, List[Conn]] = {s["sid"]: [] for s in self.sims}
        self.outof: Dict[str, List[Conn]] = {s["sid"]: [] for s in self.sims}
        for e in self.conns:
            self.into[e.v].append(e)
            self.outof[e.u].append(e)
        self.has_trigger_input = {sid: any(e.trig for e in es) for sid, es in self.into.items()}

    def zero(self, sid):
        return (0,) * self.depth[sid]

    def lift(self, sid, t):
        return (t,) + (0,) * (self.depth[sid] - 1)

    def initial_demands(self):
        dem = {}
        for s in self.sims:
            sid = s["sid"]
            d = {}
            if s.get("init_event") is not None:
                if s["init_event"] < self.until:
                    d[self.lift(sid, s["init_event"])] = [("initial",)]
            elif self.type[sid] != "event-based":
                if 0 < self.until:
                    d[self.zero(sid)] = [("initial",)]
            dem[sid] = d
        return dem

    # -------------------------------------------------------------- 5.5 cycles
    def unresolved_cycles(self):
        """All simple directed cycles all of whose hops are open."""
        n = len(self.sims)
        sids = [s["sid"] for s in self.sims]
        if not any(e.weak for e in self.conns):
            # without weak connections a hop is open iff one of its connections has no time shift,
            # whatever the cycle: an unresolved cycle is a cycle in the graph of open hops (DFS)
            adj: Dict[str, set] = {}
            for e in self.conns:
                if e.k == 0:
                    adj.setdefault(e.u, set()).add(e.v)
            for (u, v) in self.async_links:
                adj.setdefault(u, set()).add(v)
            color: Dict[str, int] = {}
            stack: List[str] = []
            found: List[List[str]] = []

            def dfs(x):
                color[x] = 1
                stack.append(x)
                for y in sorted(adj.get(x, ())):
                    if color.get(y) == 1:
                        found.append(stack[stack.index(y):])
                        return True
                    if color.get(y) is None and dfs(y):
                        return True
                stack.pop()
                color[x] = 2
                return False
            for x in sids:
                if color.get(x) is None and dfs(x):
                    break
            return found
        hop: Dict[Tuple[str, str], list] = {}
        for e in self.conns:
            hop.setdefault((e.u, e.v), []).append(("conn", e.k, e.weak, e.c))
        for (u, v) in self.async_links:
            hop.setdefault((u, v), []).append(("async", 0, False, common_len(self.path_of[u], self.path_of[v])))
        res = []
        for r in range(1, n + 1):
            for nodes in itertools.permutations(range(n), r):
                if nodes[0] != min(nodes):
                    continue
                hs = [(sids[nodes[i]], sids[nodes[(i + 1) % r]]) for i in range(r)]
                if not all(h in hop for h in hs):
                    continue
                members = [sids[i] for i in nodes]

                def resolves(h, spec):
                    _, k, weak, c = spec
                    if k >= 1:
                        return True
                    if weak:
                        g = self.path_of[h[0]][:c]
                        return all(self.path_of[m][:c] == g for m in members)
                    return False
                if all(any(not resolves(h, sp) for sp in hop[h]) for h in hs):
                    res.append(members)
        return res
