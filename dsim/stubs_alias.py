"""Old-signature stub classes that carry the *same class name* as the current-API stub
(different module): a user may well have `legacy_pkg:Simulator` and `modern_pkg:Simulator`
in one scenario (C15)."""
from . import stubs as _s


class StubSim(_s.OldInitStub):        # same __name__ as dsim.stubs.StubSim, old init signature
    pass


class _OldBoth(_s.OldBothStub):
    pass


_OldBoth.__name__ = "StubSim"
_OldBoth.__qualname__ = "StubSim"
OldBothAlias = _OldBoth
