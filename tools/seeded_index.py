#!/venv/bin/python
"""Build seeded/INDEX.md from seeded/*/meta.json."""
import json, os, glob
ROOT = os.path.dirname(os.path.dirname(os.path.abspath(__file__)))
rows = []
for f in sorted(glob.glob(os.path.join(ROOT, "seeded", "*", "meta.json"))):
    m = json.load(open(f))
    d = os.path.dirname(f)
    notes = os.path.join(d, "notes.md")
    summary = m.get("summary")
    if not summary and os.path.exists(notes):
        txt = [l.strip() for l in open(notes).read().splitlines() if l.strip() and not l.startswith("#")]
        summary = " ".join(txt[:2])[:260]
        # the agents' notes have a section on what the change needs in order to manifest
        lines = open(notes).read().splitlines()
        for i, l in enumerate(lines):
            if l.startswith("#") and ("manifest" in l.lower() or "needed" in l.lower() or "needs" in l.lower()):
                body = []
                for l2 in lines[i + 1:]:
                    if l2.startswith("#"):
                        break
                    if l2.strip():
                        body.append(l2.strip())
                if body:
                    summary = summary + " NEEDS: " + " ".join(body)[:420]
                break
    rows.append((m["id"], m["breaks_property"], "yes" if m.get("confirmed") else "NO",
                 "yes" if m.get("caught_by_target_check") else "no",
                 ", ".join(m.get("caught_by", [])) or "-", (m.get("needs") or summary or "").replace("|", "/")))
with open(os.path.join(ROOT, "seeded", "INDEX.md"), "w") as f:
    f.write("# Seeded changes (written by independent sub-agents, confirmed here)\n\n"
            "Each directory holds `patch.diff` (never committed to /repo), the sub-agent's demonstration, its "
            "notes and `meta.json` (what was run to confirm it and the result of every check). "
            "\"caught by target\" = the check of the property the change was written against reports it when the "
            "change is applied to /repo (`git -C /repo apply`, `./check`, `git -C /repo checkout -- .`); "
            "\"caught by\" lists every check that reports it (other checks were run against a scratch worktree "
            "carrying the change, 12 s budget, 6-8 workers - a lower bound).\n\n"
            "| id | targets | confirmed | caught by target | caught by | what it does / needs |\n|---|---|---|---|---|---|\n")
    for r in rows:
        f.write("| " + " | ".join(r) + " |\n")
    n = len(rows); c = sum(1 for r in rows if r[3] == "yes"); a = sum(1 for r in rows if r[4] != "-")
    f.write(f"\n{n} changes, {c} caught by the target property's check, {a} caught by at least one check.\n")
print("wrote INDEX.md", len(rows))
