"""C13 -- runtime validation of simulator replies (byzantine swarm, fault enumeration;
DESIGN 6.C13)."""
from __future__ import annotations

import json
import random
from typing import Any, Dict, List

from .. import gen, runner
from ..engine import digest
from ..loop import h64
from ..refmodel import RM
from . import core as pcore

ENGINE = "c13"
LEVEL = "fault_enumeration"
RULE = ("for each sampled (scenario, schedule) the fault-free history is recorded; fault points = "
        "(simulator, request index of a step/get_data, applicable malformed reply kind); quick runs a "
        "seeded sample of the points of each execution, thorough all of them, one run per point with "
        "exactly that fault; distinct+non-trivial = distinct (scenario, schedule, fault point) whose "
        "fault actually fired")

STEP_KINDS = ("float", "float_integral", "str", "list", "same", "earlier", "negative")
DATA_KINDS = ("past_time", "far_past")


def make_case(seed: int, tier: str, prop: str, opts=None) -> Dict[str, Any]:
    if h64(seed, "family") % 8 == 0:
        # malformed replies in real-time mode, with simulators that set events for themselves
        c = gen.gen_rt(seed, tier)
        sc, sp = c["scenario"], c["schedule"]
        if sc["config"].get("rt_factor") is None:
            sc["config"]["rt_factor"] = sc["rt"]["f"]
        sc["config"]["rt_strict"] = False
        return {"scenario": sc, "schedule": sp, "sample_seed": seed,
                "max_points": (14 if tier == "quick" else None)}
    sc = gen.gen_core(seed, tier, transport_mix="mixed")
    # (debug mode records the execution graph; it must not change what happens to a bad reply)
    sc["config"]["debug"] = h64(seed, "debug") % 6 == 0
    if h64(seed, "oldapi") % 4 == 0:
        # simulators that announce an older API version (adapters sit between them and the scheduler): their
        # malformed replies are malformed all the same
        for i_, s_ in enumerate(sc["sims"]):
            if h64(seed, "oldapi", i_) % 2 == 0 and s_["type"] == "time-based" and not s_.get("any_inputs"):
                s_["api"] = ("2.4", "2.2", "2.0")[h64(seed, "oldapiv", i_) % 3]
    sp = gen.gen_schedule(seed, sc, h64(seed, "which") % 4)
    return {"scenario": sc, "schedule": sp, "sample_seed": seed,
            "max_points": (14 if tier == "quick" else None)}


def fault_points(sc, hist) -> List[Dict[str, Any]]:
    typ = {s["sid"]: s["type"] for s in sc["sims"]}
    tr = {s["sid"]: s.get("transport", "gated") for s in sc["sims"]}
    last_get = {}
    pts = []
    for r in hist:
        if r[0] != "begin" or r[1] not in ("step", "get_data"):
            continue
        _, func, sid, tau, args, n = r
        if func == "step":
            kinds = list(STEP_KINDS)
            if typ[sid] == "time-based":
                kinds.append("none")
            for k in kinds:
                pts.append({"sid": sid, "req": n, "phase": "reply", "kind": "bad_reply",
                            "func": "step", "value": {"what": k}})
        else:
            for k in DATA_KINDS:
                pts.append({"sid": sid, "req": n, "phase": "reply", "kind": "bad_reply",
                            "func": "get_data", "value": {"what": k}})
            # an in-process simulator that re-uses its reply dict and forgets to refresh 'time': the
            # stale value is earlier than the step if the previous reply belonged to an earlier time
            prev = last_get.get(sid)
            if tr[sid] in ("gated", "stock") and prev is not None and tau is not None and prev[0] < tau[0]:
                pts.append({"sid": sid, "req": n, "phase": "reply", "kind": "bad_reply",
                            "func": "get_data", "value": {"what": "stale_time_reused_dict"}})
            if tau is not None:
                last_get[sid] = tau
    return pts


def check_one(sc, sp, base, f):
    """-> (violations, fired)"""
    r = runner.execute(sc, sp, faults=[f])
    hist = r.hist
    viols = []
    qf = next((i for i, h in enumerate(hist) if h[0] == "fault"), None)
    if qf is None:
        return [], False, r
    sid = f["sid"]
    oc = r.outcome
    what = f["value"]["what"]
    feats = {"what": what, "func": f["func"]}
    # 1. run() raises
    if oc[0] == "ok":
        viols.append({"kind": "malformed_reply_accepted", "features": feats,
                      "detail": {"fault": f, "outcome": list(oc)}})
    elif oc[0] in ("deadlock", "livelock", "hang"):
        viols.append({"kind": "malformed_reply_" + oc[0], "features": feats,
                      "detail": {"fault": f, "outcome": list(oc)}})
    elif oc[0] == "exception":
        msg = oc[2]
        if f'"{sid}"' not in msg and f"'{sid}'" not in msg and f" {sid} " not in f" {msg} " \
                and f"{sid}." not in msg and f"{sid}," not in msg:
            viols.append({"kind": "error_does_not_name_simulator",
                          "features": dict(feats, exc=oc[1]),
                          "detail": {"fault": f, "outcome": list(oc)}})
    else:
        viols.append({"kind": "unexpected_outcome", "features": dict(feats, outcome=oc[0]),
                      "detail": {"fault": f, "outcome": list(oc)}})
    # 2. no further step of the faulty simulator, no step in the past for anybody
    last = {}
    for i, h in enumerate(hist):
        if h[0] == "begin" and h[1] == "step":
            s2, t = h[2], h[4][0]
            if i > qf and s2 == sid:
                viols.append({"kind": "stepped_after_malformed_reply", "features": feats,
                              "detail": {"fault": f, "step": h[3], "q": i}})
                break
            if s2 in last and t < last[s2]:
                viols.append({"kind": "step_in_the_past", "features": feats,
                              "detail": {"fault": f, "sid": s2, "time": t, "previous": last[s2]}})
                break
            last[s2] = t
    # 3. not retroactive: the prefix before the fault equals the fault-free run's
    if [h for h in hist[:qf]] != [h for h in base.hist[:qf]]:
        viols.append({"kind": "prefix_differs_from_fault_free_run", "features": feats,
                      "detail": {"fault": f}})
    return viols, True, r


def run_case(case, prop) -> Dict[str, Any]:
    sc = case["scenario"]
    sp = case["schedule"]
    rm = RM(sc)
    out = {"runs": 0, "violations": [], "stats": {}, "fps": set(), "ntfps": set(),
           "scen": {h64(json.dumps(sc, sort_keys=True))}, "sim_time": 0.0, "steps": 0,
           "aborted": 0, "completed": 0}
    st = out["stats"]
    if any(v is not None for v in rm.verdicts) or rm.unresolved_cycles():
        st["invalid_scenario"] = 1
        out["digest"] = "invalid"
        return out
    base = runner.execute(sc, sp)
    out["runs"] += 1
    if sc["config"].get("rt_factor") is not None:
        st["rt_cases"] = 1
    if base.outcome[0] != "ok":
        st["baseline_not_ok"] = 1
        out["digest"] = digest(base.hist)
        return out
    if case.get("faults") is not None:
        pts = case["faults"]
    else:
        pts = fault_points(sc, base.hist)
        st["fault_points_total"] = len(pts)
        mp = case.get("max_points")
        if mp is not None and len(pts) > mp:
            rng = random.Random(h64(case.get("sample_seed", 0), "pts"))
            pts = rng.sample(pts, mp)
    digs = [digest(base.hist)]
    reported = set()
    scen = next(iter(out["scen"]))
    st["profile_" + sp.get("profile", "sync")] = 1
    for f in pts:
        viols, fired, r = check_one(sc, sp, base, f)
        out["runs"] += 1
        out["sim_time"] += r.stats["vtime"]
        digs.append(digest(r.hist))
        out["fps"].add(pcore.fingerprint(r.hist))
        if not fired:
            st["fault_not_fired"] = st.get("fault_not_fired", 0) + 1
            continue
        out["aborted"] += 1
        st["fault_bad_reply_" + f["value"]["what"]] = st.get("fault_bad_reply_" + f["value"]["what"], 0) + 1
        fr = next(h for h in r.hist if h[0] == "fault")
        if fr[5] > 0:
            st["faults_fired_with_work_in_flight"] = st.get("faults_fired_with_work_in_flight", 0) + 1
        out["ntfps"].add(h64(scen, json.dumps(sp, sort_keys=True), f["sid"], f["req"], f["value"]["what"]))
        for v in viols:
            v["digest"] = digs[-1]
            v["case"] = {"scenario": sc, "schedule": sp, "faults": [f]}
            key = (v["kind"], json.dumps(v["features"], sort_keys=True))
            if key not in reported:
                reported.add(key)
                out["violations"].append(v)
    out["sample"] = {"scenario_sims": [(s["sid"], s["type"], s["transport"]) for s in sc["sims"]],
                     "schedule": sp, "fault_points_run": pts[:3]}
    out["digest"] = digest(digs)
    return out


def shrink_candidates(case, prop):
    sc, sp, faults = case["scenario"], case["schedule"], case.get("faults")
    if not faults:
        return
    f = faults[0]
    for cand in pcore.shrink_candidates({"scenario": sc, "schedules": [sp]}, prop):
        sc2 = cand["scenario"]
        sids = [s["sid"] for s in sc2["sims"]]
        if f["sid"] not in sids:
            continue
        yield {"scenario": sc2, "schedule": cand["schedules"][0], "faults": [f]}
    # earlier fault point
    if f["req"] > 1:
        for n in (1, 2, f["req"] - 2, f["req"] - 1):
            if 1 <= n < f["req"]:
                yield {"scenario": sc, "schedule": sp, "faults": [dict(f, req=n)]}
