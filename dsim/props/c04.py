"""C04 -- schedule and configuration independence (differential engine, DESIGN 6.C04).

One baseline run (stock in-process transport, no latency, lazy on, cache on, debug off,
declaration order) and K variants over latency profile x lazy x cache x debug x transport
x start order x connect/ChoiceSet order.  Oracle: per-simulator sequences of
(time, normalised inputs) and the outcome class are equal.  No reference model decides
the verdict; RM is only used afterwards to say whether a difference is explained by a
known C03/C05 finding."""
from __future__ import annotations

import copy
import json
import random
from typing import Any, Dict, List

from .. import gen, runner
from ..engine import digest, load_known, match_known
from ..loop import h64
from ..oracles.core import norm_inputs
from ..refmodel import RM
from . import core as pcore

ENGINE = "c04"
LEVEL = "exploration"
RULE = ("a case is one scenario+behaviour executed under a baseline and K variant "
        "(schedule, lazy, cache, debug, transport, start order, connect order) settings; it "
        "counts as distinct+non-trivial when the (scenario digest, variant interleaving "
        "fingerprint) pair is new and two requests to different simulators were in flight at once")
CARVE_OUTS = {"C04": ["two connections from one source entity into one (entity, attr) (order dependent by construction)",
                      "replies carrying persistent attributes together with a future time"]}

AXES = ("lazy", "cache", "debug", "start_seed", "connect_seed", "order_seed", "iteration_cost")
BASE_CFG = {"lazy": True, "cache": True, "debug": False, "start_seed": None,
            "connect_seed": None, "order_seed": None, "iteration_cost": 0.0}


def make_case(seed: int, tier: str, prop: str, opts=None) -> Dict[str, Any]:
    opts = opts or {}
    if h64(seed, "family") % 10 == 0 and not opts.get("force"):
        # plant + async_requests agents (legal requests only): set_data delivery must not depend
        # on schedule, transport or configuration either
        sc = gen.gen_async(seed, tier)
        sc.pop("illegal_async", None)
        for s_ in sc["sims"]:
            if s_["beh"].get("async_calls"):
                s_["beh"]["async_calls"] = [c for c in s_["beh"]["async_calls"] if not c.get("illegal")]
        for c in sc["conns"]:
            if c.get("async") is False:
                c["async"] = True
    else:
        # (None-valued events are left out: the known-finding explanation attributes values)
        sc = gen.gen_core(seed, tier, force=dict(opts.get("force") or {}, none_values=False))
    rng = random.Random(h64(seed, "c04"))
    mli = sc["config"].get("mli", 100)
    sc["config"] = dict(BASE_CFG, mli=mli)
    for s in sc["sims"]:
        s["transport"] = "stock"
    variants = []
    if tier == "thorough":
        combos = [(lz, ca, db, tr) for lz in (True, False) for ca in (True, False)
                  for db in (False, True) for tr in ("stock", "gated", "remote")]
    else:
        combos = []
        k = opts.get("variants", 6)
        for _ in range(k):
            combos.append((rng.random() < 0.5, rng.random() < 0.5, rng.random() < 0.15,
                           rng.choice(["stock", "gated", "gated", "remote", "mixed"])))
    for j, (lz, ca, db, tr) in enumerate(combos):
        v = {"cfg": {"lazy": lz, "cache": ca, "debug": db,
                     "start_seed": rng.choice([None, rng.randrange(1 << 30)]),
                     "connect_seed": rng.choice([None, rng.randrange(1 << 30)]),
                     "order_seed": rng.choice([None, rng.randrange(1 << 30)]),
                     "iteration_cost": rng.choice([0.0, 0.0, 1e-5])}}
        if tr == "mixed":
            v["transports"] = [gen.pick_weighted(rng, gen.TRANSPORT_MIXES["mixed"]) for _ in sc["sims"]]
        elif tr == "remote":
            v["transports"] = [rng.choice(["remote", "cmd"]) for _ in sc["sims"]]
        else:
            v["transports"] = [tr] * len(sc["sims"])
        if tr == "stock":
            v["schedule"] = {"profile": "sync", "seed": 0}
        else:
            v["schedule"] = gen.gen_schedule(h64(seed, "v", j), sc, 1 + j)
        variants.append(v)
    case = {"scenario": sc, "variants": variants}
    if len(sc["sims"]) <= 3 and h64(seed, "sat") % (20 if tier == "quick" else 5) == 0:
        case["saturation"] = 24 if tier == "quick" else 60
    return case


def apply_variant(sc, v):
    sc2 = copy.deepcopy(sc)
    sc2["config"].update(v["cfg"])
    for s, t in zip(sc2["sims"], v["transports"]):
        s["transport"] = t
    return sc2


def view(hist):
    out: Dict[str, List[Any]] = {}
    for q, r in enumerate(hist):
        if r[0] == "begin" and r[1] == "step":
            out.setdefault(r[2], []).append((r[4][0], norm_inputs(r[4][1]), q))
    return out


def outcome_class(oc):
    if oc[0] == "exception":
        if oc[1] == "SimulationError" and "has performed a sub-step more than" in oc[2]:
            return "loop_guard"
        return f"exception:{oc[1]}"
    return oc[0]


def first_difference(va, vb):
    """The differing step that comes first in the base run's history (causally earliest
    candidates first; a later difference may be a mere consequence)."""
    best = None
    for sid in sorted(set(va) | set(vb)):
        a, b = va.get(sid, []), vb.get(sid, [])
        for i in range(max(len(a), len(b))):
            d = None
            if i >= len(a) or i >= len(b):
                d = {"sid": sid, "index": i, "what": "steps_differ",
                     "base": a[i][0] if i < len(a) else None,
                     "variant": b[i][0] if i < len(b) else None}
            elif a[i][0] != b[i][0]:
                d = {"sid": sid, "index": i, "what": "steps_differ", "base": a[i][0], "variant": b[i][0]}
            elif a[i][1] != b[i][1]:
                keys = [k for k in set(a[i][1]) | set(b[i][1])
                        if a[i][1].get(k, "<absent>") != b[i][1].get(k, "<absent>")]
                k = sorted(keys)[0]
                d = {"sid": sid, "index": i, "what": "inputs_differ", "time": a[i][0], "key": list(k),
                     "base": a[i][1].get(k, "<absent>"), "variant": b[i][1].get(k, "<absent>")}
            if d is not None:
                pos = a[i][2] if i < len(a) else (b[i][2] if i < len(b) else 1 << 60)
                if best is None or pos < best[0]:
                    best = (pos, d)
                break
    return best[1] if best else None


def explain(sc_a, r_a, sc_b, r_b, known):
    """Is one of the two runs hit by a *known* C03/C05 finding?  (Only used to attribute
    a C04 difference to a finding that is already recorded; never to excuse anything
    else.)"""
    out = []
    for sc, r in ((sc_a, r_a), (sc_b, r_b)):
        rm = RM(sc)
        viols, _ = pcore.analyse_run(sc, rm, r, want_lazy_probe=True)
        for p in ("C03", "C05"):
            for v in viols.get(p, []):
                e = match_known(p, v, known)
                out.append(e["id"] if e else f"{p}:{v['kind']}")
    return sorted(set(out))


def subtier_early_direct(sc, r, diff, which):
    """KF-D7's predicate evaluated directly on a differing input: the value a run
    delivered was produced with an arrival time in the same main time but at a later
    sub-time than the step that received it.  (Covers connections the C03 oracle leaves
    out, e.g. initial data on an event connection.)"""
    if diff.get("what") != "inputs_differ":
        return False
    rm = RM(sc)
    sid, idx, key = diff["sid"], diff["index"], tuple(diff["key"])
    val = diff[which]
    conn = None
    for e in rm.into.get(sid, []):
        if (e.ve, e.va, e.src_full) == key:
            conn = e
    if conn is None or val in ("<absent>", None):
        return False
    tau = None
    n = 0
    cur = {}
    prod_tau = None
    for rec in r.hist:
        if rec[0] == "begin" and rec[1] == "step":
            cur[rec[2]] = rec[3]
            if rec[2] == sid:
                if n == idx:
                    tau = rec[3]
                    break
                n += 1
        elif rec[0] == "end" and rec[1] == "get_data" and rec[2] == conn.u and isinstance(rec[3], dict):
            d = rec[3]
            if d.get(conn.ue, {}).get(conn.ua) == val and cur.get(conn.u) is not None:
                t = cur[conn.u]
                ot = d.get("time", t[0])
                prod_tau = tuple(t) if ot == t[0] else rm.lift(conn.u, ot)
    if tau is None or prod_tau is None:
        return False
    a = conn.arr(prod_tau)
    return a[0] == tau[0] and a > tuple(tau)


def run_case(case, prop) -> Dict[str, Any]:
    sc = case["scenario"]
    out = {"runs": 0, "violations": [], "stats": {}, "fps": set(), "ntfps": set(),
           "scen": {h64(json.dumps(sc, sort_keys=True))}, "sim_time": 0.0, "steps": 0,
           "aborted": 0, "completed": 0}
    st = out["stats"]
    rm0 = RM(sc)
    if any(v is not None for v in rm0.verdicts) or rm0.unresolved_cycles():
        st["invalid_scenario"] = 1
        out["digest"] = "invalid"
        return out
    known = load_known()
    base = runner.execute(sc, {"profile": "sync", "seed": 0})
    out["runs"] += 1
    vb = view(base.hist)
    ob = outcome_class(base.outcome)
    digs = [digest(base.hist)]
    out["completed" if ob == "ok" else "aborted"] += 1
    out["steps"] += sum(len(x) for x in vb.values())
    reported = set()
    fps_case = set()
    for j, v in enumerate(case["variants"]):
        sc2 = apply_variant(sc, v)
        r = runner.execute(sc2, v["schedule"])
        out["runs"] += 1
        out["sim_time"] += r.stats["vtime"]
        hd = digest(r.hist)
        digs.append(hd)
        vv = view(r.hist)
        ov = outcome_class(r.outcome)
        out["completed" if ov == "ok" else "aborted"] += 1
        out["steps"] += sum(len(x) for x in vv.values())
        fp = pcore.fingerprint(r.hist)
        out["fps"].add(fp)
        fps_case.add(fp)
        if pcore.concurrency(r.hist) >= 2:
            st["two_in_flight"] = st.get("two_in_flight", 0) + 1
            out["ntfps"].add(h64(next(iter(out["scen"])), fp))
        for ax in ("lazy", "cache", "debug"):
            if v["cfg"][ax] != BASE_CFG[ax]:
                st["axis_" + ax] = st.get("axis_" + ax, 0) + 1
        for ax in ("start_seed", "connect_seed", "order_seed"):
            if v["cfg"][ax] is not None:
                st["axis_" + ax] = st.get("axis_" + ax, 0) + 1
        trs = set(v["transports"])
        st["transport_" + ("+".join(sorted(trs)))] = st.get("transport_" + ("+".join(sorted(trs))), 0) + 1
        st["profile_" + v["schedule"].get("profile", "sync")] = st.get("profile_" + v["schedule"].get("profile", "sync"), 0) + 1
        viol = None
        if ov != ob:
            viol = {"kind": "outcome_differ", "detail": {"base": list(base.outcome), "variant": list(r.outcome)}}
        elif ob == "ok":
            d = first_difference(vb, vv)
            if d is not None:
                viol = {"kind": d["what"], "detail": d}
        if viol is not None:
            ex = explain(sc, base, sc2, r, known)
            if viol["kind"] == "inputs_differ" and "KF-D7" not in ex:
                if subtier_early_direct(sc, base, viol["detail"], "base") or \
                        subtier_early_direct(sc2, r, viol["detail"], "variant"):
                    ex = sorted(set(ex) | {"KF-D7"})
            axes = [ax for ax in AXES if v["cfg"].get(ax) != BASE_CFG[ax]]
            if set(v["transports"]) != {"stock"}:
                axes.append("transport")
            if v["schedule"].get("profile", "sync") != "sync":
                axes.append("schedule")
            all_known = bool(ex) and all(x.startswith("KF-") for x in ex)
            viol["features"] = {"explained_by_known_finding": all_known,
                                "primary": ex[0] if all_known else None}
            viol["detail"]["oracle_violations_in_compared_runs"] = ex
            viol["detail"]["axes"] = axes
            viol["detail"]["variant_index"] = j
            viol["digest"] = hd
            viol["case"] = {"scenario": sc, "variants": [v]}
            key = (viol["kind"], json.dumps(viol["features"], sort_keys=True))
            if key not in reported:
                reported.add(key)
                out["violations"].append(viol)
    if len(sc["sims"]) <= 3:
        st["small_scenarios"] = 1
        st["small_scenario_interleavings"] = len(fps_case)
        # reach measure (evidence only, not a deciding step): for a share of the small scenarios many
        # more schedules are sampled and the views compared; "saturated" = the second half of the
        # samples produced no interleaving fingerprint the first half had not produced
        if case.get("saturation") and ob == "ok":
            n_extra = case["saturation"]
            seen, first_half = set(), 0
            for k in range(n_extra):
                v2 = {"cfg": dict(BASE_CFG), "transports": ["gated"] * len(sc["sims"]),
                      "schedule": {"profile": ("ties", "uniform", "per_sim", "slow_req")[k % 4],
                                   "seed": h64(next(iter(out["scen"])), "sat", k) % (1 << 30)}}
                r = runner.execute(apply_variant(sc, v2), v2["schedule"])
                out["runs"] += 1
                fp = pcore.fingerprint(r.hist)
                seen.add(fp)
                out["fps"].add(fp)
                if k == n_extra // 2 - 1:
                    first_half = len(seen)
                if outcome_class(r.outcome) != ob or (ob == "ok" and first_difference(vb, view(r.hist)) is not None):
                    d = first_difference(vb, view(r.hist)) or {"what": "outcome_differ"}
                    ex = explain(sc, base, apply_variant(sc, v2), r, known)
                    if d.get("what") == "inputs_differ" and "KF-D7" not in ex and (
                            subtier_early_direct(sc, base, d, "base")
                            or subtier_early_direct(apply_variant(sc, v2), r, d, "variant")):
                        ex = sorted(set(ex) | {"KF-D7"})
                    all_known = bool(ex) and all(x.startswith("KF-") for x in ex)
                    viol = {"kind": d.get("what", "outcome_differ"), "detail": dict(d, axes=["schedule", "transport"]),
                            "features": {"explained_by_known_finding": all_known, "primary": ex[0] if all_known else None},
                            "digest": digest(r.hist), "case": {"scenario": sc, "variants": [v2]}}
                    key = (viol["kind"], json.dumps(viol["features"], sort_keys=True))
                    if key not in reported:
                        reported.add(key)
                        out["violations"].append(viol)
            st["saturation_probes"] = 1
            st["saturation_interleavings"] = len(seen)
            if len(seen) == first_half:
                st["saturation_probes_saturated"] = 1
    out["sample"] = {"scenario": sc, "variant": case["variants"][-1] if case["variants"] else None,
                     "outcome": ob, "steps": sum(len(x) for x in vb.values())}
    out["digest"] = digest(digs)
    return out


def shrink_candidates(case, prop):
    sc = case["scenario"]
    v = case["variants"][0]

    def mk(sc2=None, v2=None):
        return {"scenario": sc2 if sc2 is not None else sc, "variants": [v2 if v2 is not None else v]}
    # 1. revert variant axes to the baseline one by one (names the axis that matters)
    for ax in AXES:
        if v["cfg"].get(ax) != BASE_CFG[ax]:
            v2 = copy.deepcopy(v)
            v2["cfg"][ax] = BASE_CFG[ax]
            yield mk(v2=v2)
    if v["schedule"].get("profile", "sync") != "sync":
        v2 = copy.deepcopy(v)
        v2["schedule"] = {"profile": "zero", "seed": 0} if set(v["transports"]) != {"stock"} else {"profile": "sync", "seed": 0}
        if v2["schedule"] != v["schedule"]:
            yield mk(v2=v2)
    if set(v["transports"]) != {"stock"}:
        v2 = copy.deepcopy(v)
        v2["transports"] = ["stock"] * len(v["transports"])
        v2["schedule"] = {"profile": "sync", "seed": 0}
        yield mk(v2=v2)
        if set(v["transports"]) != {"gated"}:
            v2 = copy.deepcopy(v)
            v2["transports"] = ["gated"] * len(v["transports"])
            yield mk(v2=v2)
    # 2. scenario reductions (reuse the core shrinker on the scenario alone)
    for cand in pcore.shrink_candidates({"scenario": sc, "schedules": [{"profile": "sync", "seed": 0}]}, prop):
        sc2 = cand["scenario"]
        if cand["schedules"][0] != {"profile": "sync", "seed": 0}:
            continue
        if len(sc2["sims"]) != len(sc["sims"]):
            # a simulator was dropped: drop its transport entry too
            kept = [s["sid"] for s in sc2["sims"]]
            v2 = copy.deepcopy(v)
            v2["transports"] = [t for s, t in zip(sc["sims"], v["transports"]) if s["sid"] in kept]
            yield mk(sc2, v2)
            continue
        if any(s2.get("transport") != s.get("transport") for s, s2 in zip(sc["sims"], sc2["sims"])):
            continue
        if sc2["config"] != sc["config"]:
            # baseline configuration is fixed
            if {k: v_ for k, v_ in sc2["config"].items() if k != "mli"} != {k: v_ for k, v_ in sc["config"].items() if k != "mli"}:
                continue
        yield mk(sc2)
