"""C16 -- asynchronous requests set_data/get_data (async swarm, DESIGN 6.C16)."""
from __future__ import annotations

import copy
import json
from typing import Any, Dict

from .. import gen, runner
from ..engine import digest
from ..loop import h64
from ..oracles.core import norm_inputs
from . import core as pcore

ENGINE = "c16"
LEVEL = "exploration"
RULE = ("a case is a plant A (time-based or hybrid, step size 1-4, 1-2 entities) connected with "
        "async_requests=True to 1-3 generator-style agents (step size 1-4) that issue sparse "
        "set_data/get_data/get_progress/get_related_entities calls, in a third of the cases one "
        "call towards a simulator without such a connection; stock/gated/remote transports, latency "
        "also on simulator-initiated requests; 3 schedules per case; distinct+non-trivial = new "
        "(scenario, interleaving) pair in which at least one set_data call was made")


def make_case(seed: int, tier: str, prop: str, opts=None) -> Dict[str, Any]:
    sc = gen.gen_async(seed, tier)
    k = 3 if tier == "quick" else 6
    return {"scenario": sc, "schedules": [gen.gen_schedule(seed, sc, j) for j in range(k)]}


def check_history(sc, r):
    hist = r.hist
    viols = []
    until = sc["until"]
    agents = {s["sid"] for s in sc["sims"] if s.get("stub") == "async"}
    legal_async = {(sc["sims"][c["src"]]["sid"], sc["sims"][c["dst"]]["sid"])
                   for c in sc["conns"] if c.get("async")}     # (plant, agent)
    gpath = {}
    _groups = sc.get("groups") or [None]
    for s_ in sc["sims"]:
        g, pth = s_.get("group", 0), []
        while g is not None:
            pth.append(g)
            g = _groups[g]
        gpath[s_["sid"]] = tuple(pth)
    open_agent_tau = {}
    pending = {}       # target sid -> {(eid, attr, src_full): (value, q)}
    delivered = {}     # value -> count
    open_agent = {}    # agent -> time of its open step
    _typ = {s_["sid"]: s_["type"] for s_ in sc["sims"]}
    # (time-based agents step at 0 and then whenever they say; agents of another type are covered
    # by check_triggered_agents)
    next_due = {a: 0 for a in agents if _typ[a] == "time-based"}
    cur_time = {}
    n_set = 0
    refused_values = set()
    all_values = {}
    plant_next = {}    # plant -> time of its next (self-scheduled) step, None if unknown
    plant_open = {}
    for q, h in enumerate(hist):
        k = h[0]
        if k == "begin" and h[1] == "step":
            sid, t, inputs = h[2], h[4][0], norm_inputs(h[4][1])
            cur_time[sid] = t
            tau = h[3]
            if sid in agents:
                open_agent[sid] = t
                open_agent_tau[sid] = tau
            else:
                plant_open[sid] = t
            # (b) A does not begin a step later than t before B's step at t has finished
            for (plant, agent) in legal_async:
                if plant != sid:
                    continue
                if agent in open_agent and open_agent[agent] < t:
                    viols.append({"kind": "plant_overtakes_open_agent_step", "features": {},
                                  "detail": {"plant": sid, "time": t, "agent": agent,
                                             "agent_time": open_agent[agent], "q": q}})
                elif agent in open_agent and gpath[agent] == gpath[sid] and tau is not None \
                        and open_agent_tau.get(agent) is not None and tuple(open_agent_tau[agent]) < tuple(tau):
                    # same group: "later than t" includes later sub-steps of the same time step
                    viols.append({"kind": "plant_overtakes_open_agent_step", "features": {"substep": True},
                                  "detail": {"plant": sid, "tau": tau, "agent": agent,
                                             "agent_tau": open_agent_tau[agent], "q": q}})
                nd = next_due.get(agent)
                if agent not in open_agent and nd is not None and nd == t and nd < until \
                        and gpath[agent] == gpath[sid] and tau is not None and any(x > 0 for x in tuple(tau)[1:]):
                    # same group: a later sub-step of the plant's time step t is "later than t" too - the
                    # agent's step at t (sub-time 0) comes first
                    viols.append({"kind": "plant_overtakes_pending_agent_step", "features": {"substep": True},
                                  "detail": {"plant": sid, "tau": tau, "agent": agent, "agent_due": nd, "q": q}})
                if agent not in open_agent and nd is not None and nd < t and nd < until:
                    viols.append({"kind": "plant_overtakes_pending_agent_step", "features": {},
                                  "detail": {"plant": sid, "time": t, "agent": agent, "agent_due": nd, "q": q}})
            # (a) set_data delivery
            exp = pending.pop(sid, {})
            got = {key: v for key, v in inputs.items() if isinstance(v, str) and ":sd" in v}
            for key, (val, qc) in exp.items():
                if got.get(key) != val:
                    viols.append({"kind": "set_data_lost", "features": {},
                                  "detail": {"target": sid, "step_time": t, "key": list(key),
                                             "expected": val, "got": got.get(key, "<absent>"), "q": q}})
            for key, val in got.items():
                if key not in exp or exp[key][0] != val:
                    kind = "set_data_repeated" if delivered.get(val) else (
                        "refused_set_data_delivered" if val in refused_values else "set_data_unexpected")
                    viols.append({"kind": kind, "features": {},
                                  "detail": {"target": sid, "step_time": t, "key": list(key), "value": val, "q": q}})
                delivered[val] = delivered.get(val, 0) + 1
        elif k == "end" and h[1] == "step":
            sid = h[2]
            if sid in agents:
                open_agent.pop(sid, None)
                open_agent_tau.pop(sid, None)
                ret = h[3]
                if _typ[sid] == "time-based":
                    next_due[sid] = ret if isinstance(ret, int) else None
            else:
                plant_open.pop(sid, None)
                plant_next[sid] = h[3] if isinstance(h[3], int) else None
        elif k == "async_call" and h[2] == "set_data":
            n_set += 1
        elif k == "async_done" and h[2] == "set_data":
            payload = hist[h[3]][3]
            for src_full, dests in payload.items():
                for dst_full, attrs in dests.items():
                    dsid, deid = dst_full.split(".", 1)
                    for a, val in attrs.items():
                        key = (deid, a, src_full)
                        old = pending.get(dsid, {}).get(key)
                        t2 = cur_time.get(h[1])
                        if old is not None and (dsid, h[1]) in legal_async and t2 is not None:
                            # a value may only be superseded if the plant had no step due in between:
                            # the agent's step at t2 comes after every step of the plant up to t2
                            pn = plant_next.get(dsid)
                            if pn is not None and pn <= t2 and pn < until and dsid not in plant_open:
                                viols.append({"kind": "set_data_superseded_before_delivery", "features": {},
                                              "detail": {"target": dsid, "key": list(key), "lost": old[0],
                                                         "superseded_by": val, "agent": h[1], "agent_time": t2,
                                                         "plant_step_due": pn, "q": q}})
                        pending.setdefault(dsid, {})[key] = (val, h[3])
                        all_values[val] = (h[1], dsid)
        elif k == "async_err":
            if h[2] == "set_data":
                payload = hist[h[3]][3]
                for src_full, dests in payload.items():
                    for dst_full, attrs in dests.items():
                        for a, val in attrs.items():
                            refused_values.add(val)
    return viols, n_set


def check_triggered_agents(sc, r):
    """(b) for agents that are not time-based (their steps are demanded by triggers from other
    simulators): the plant does not begin a step later than t before the agent's step at t has
    finished - whether that step is open, already demanded, or only demanded later."""
    from ..oracles import core as ocore
    from ..refmodel import RM
    typ = {s["sid"]: s["type"] for s in sc["sims"]}
    pairs = [(sc["sims"][c["src"]]["sid"], sc["sims"][c["dst"]]["sid"]) for c in sc["conns"] if c.get("async")]
    pairs = [(p, a) for p, a in pairs if typ[a] != "time-based" and p != a]
    if not pairs:
        return []
    rm = RM(sc)
    if any(v is not None for v in rm.verdicts):
        return []
    A = ocore.analyse(r.hist, rm, r.outcome, sc["config"])
    viols = []
    for plant, agent in pairs:
        if rm.path_of[plant] != rm.path_of[agent] and (len(rm.path_of[plant]) > 1 or len(rm.path_of[agent]) > 1):
            continue        # (main-time comparison only where both see the same time tiers)
        done_at = {}
        for st in A.steps[agent]:
            if st.tau is not None:
                done_at[st.tau] = st.q_end_step if st.q_end_step is not None else (1 << 60)
        for ps in A.steps[plant]:
            if ps.tau is None or ps.q_begin is None:
                continue
            t = ps.tau[0]
            for tau, qd in A.dem_q[agent].items():
                if tau[0] >= t:
                    continue
                fin = done_at.get(tau, 1 << 60)
                if fin > ps.q_begin:
                    how = "demanded_later" if qd > ps.q_begin else ("open_or_pending")
                    viols.append({"kind": "plant_overtakes_triggered_agent_step", "features": {"how": how},
                                  "detail": {"plant": plant, "plant_tau": ps.tau, "agent": agent, "agent_tau": tau,
                                             "demand_known_at": qd, "plant_began_at": ps.q_begin,
                                             "agent_finished_at": None if fin == 1 << 60 else fin}})
                    return viols
    return viols


def run_case(case, prop) -> Dict[str, Any]:
    sc = case["scenario"]
    out = {"runs": 0, "violations": [], "stats": {}, "fps": set(), "ntfps": set(),
           "scen": {h64(json.dumps(sc, sort_keys=True))}, "sim_time": 0.0, "steps": 0,
           "aborted": 0, "completed": 0}
    st = out["stats"]
    ill = sc.get("illegal_async")
    if ill:
        st["cases_with_illegal_call"] = 1
        st["illegal_" + ill["how"]] = 1
    digs = []
    reported = set()
    tr = {s["sid"]: s.get("transport", "gated") for s in sc["sims"]}

    def report(v, hd, sp):
        v["digest"] = hd
        v["case"] = {"scenario": sc, "schedules": [sp]}
        key = (v["kind"], json.dumps(v["features"], sort_keys=True))
        if key not in reported:
            reported.add(key)
            out["violations"].append(v)
    for sp in case["schedules"]:
        r = runner.execute(sc, sp)
        out["runs"] += 1
        out["sim_time"] += r.stats["vtime"]
        hd = digest(r.hist)
        digs.append(hd)
        fp = pcore.fingerprint(r.hist)
        out["fps"].add(fp)
        oc = r.outcome
        viols, n_set = check_history(sc, r)
        viols.extend(check_triggered_agents(sc, r))
        if n_set:
            st["runs_with_set_data"] = st.get("runs_with_set_data", 0) + 1
            st["set_data_calls"] = st.get("set_data_calls", 0) + n_set
            out["ntfps"].add(h64(next(iter(out["scen"])), fp))
        if pcore.concurrency(r.hist) >= 2:
            st["two_in_flight"] = st.get("two_in_flight", 0) + 1
        for v in viols:
            report(v, hd, sp)
        # (c) refusal of calls without an async connection
        illegal_made = [h for h in r.hist if h[0] == "async_call" and ill and h[1] == ill["agent"]
                        and h[2] == ill["kind"] and _targets(h) == ill["target"]]
        if illegal_made:
            st["illegal_calls_made"] = st.get("illegal_calls_made", 0) + 1
            local = tr[ill["agent"]] in ("stock", "gated")
            feats = {"how": ill["how"], "kind": ill["kind"], "agent_transport": "local" if local else "remote"}
            q0 = r.hist.index(illegal_made[0])
            done = any(h[0] == "async_done" and h[3] == q0 for h in r.hist)
            if done:
                report({"kind": "illegal_async_call_accepted", "features": feats,
                        "detail": {"illegal": ill, "outcome": list(oc)[:3]}}, hd, sp)
            elif local:
                if not (oc[0] == "scenario_error" or (oc[0] == "exception" and oc[1] == "ScenarioError")):
                    report({"kind": "illegal_async_call_not_scenario_error", "features": feats,
                            "detail": {"illegal": ill, "outcome": list(oc)}}, hd, sp)
            else:
                err = next((h for h in r.hist if h[0] == "async_err" and h[3] == q0), None)
                if err is None or err[5] != "ScenarioError":
                    report({"kind": "illegal_async_call_not_scenario_error", "features": feats,
                            "detail": {"illegal": ill, "caller_saw": err, "outcome": list(oc)[:3]}}, hd, sp)
            out["aborted"] += 1
        elif oc[0] != "ok":
            out["aborted"] += 1
            report({"kind": "run_failed", "features": {"outcome": oc[0], "type": oc[1] if len(oc) > 1 else None},
                    "detail": {"outcome": list(oc), "tb": (r.tb or "")[-700:]}}, hd, sp)
        else:
            out["completed"] += 1
            # the exact step set (C02's oracle) also holds with asynchronous requests
            from ..oracles import core as ocore
            from ..refmodel import RM
            A = ocore.analyse(r.hist, RM(sc), oc, sc["config"])
            for v in A.viol.get("C02", []):
                report({"kind": "step_set_wrong", "features": {"c02": v["kind"]}, "detail": dict(v)}, hd, sp)
    out["sample"] = {"sims": [(s["sid"], s["type"], s["transport"], s["beh"].get("step_sizes"),
                               s["beh"].get("async_calls")) for s in sc["sims"]],
                     "until": sc["until"], "illegal": ill}
    out["digest"] = digest(digs)
    return out


def _targets(h):
    p = h[3]
    if h[2] == "set_data":
        return next(iter(next(iter(p.values())).keys()))
    if h[2] == "get_data":
        return next(iter(p.keys()))
    return None


def shrink_candidates(case, prop):
    sc = case["scenario"]
    sp = case["schedules"][0]
    if sp.get("profile") != "sync":
        yield {"scenario": sc, "schedules": [{"profile": "sync", "seed": 0}]}
        yield {"scenario": sc, "schedules": [{"profile": "zero", "seed": 0}]}
    for i in reversed(range(1, len(sc["sims"]))):
        sc2 = copy.deepcopy(sc)
        sid = sc2["sims"][i]["sid"]
        if sc2.get("illegal_async") and sid in (sc2["illegal_async"]["agent"], sc2["illegal_async"]["target"].split(".")[0]):
            continue
        del sc2["sims"][i]
        sc2["conns"] = [dict(c, src=c["src"] - (c["src"] > i), dst=c["dst"] - (c["dst"] > i))
                        for c in sc2["conns"] if i not in (c["src"], c["dst"])]
        yield {"scenario": sc2, "schedules": [sp]}
    for u in sorted({1, 2, sc["until"] - 1}):
        if 1 <= u < sc["until"]:
            sc2 = copy.deepcopy(sc)
            sc2["until"] = u
            yield {"scenario": sc2, "schedules": [sp]}
    for i, s in enumerate(sc["sims"]):
        calls = s["beh"].get("async_calls") or []
        for j in range(len(calls)):
            if calls[j].get("illegal"):
                continue
            sc2 = copy.deepcopy(sc)
            del sc2["sims"][i]["beh"]["async_calls"][j]
            yield {"scenario": sc2, "schedules": [sp]}
        if s.get("transport") != "gated":
            sc2 = copy.deepcopy(sc)
            sc2["sims"][i]["transport"] = "gated"
            yield {"scenario": sc2, "schedules": [sp]}
        if s["beh"].get("step_sizes", [1]) != [1]:
            sc2 = copy.deepcopy(sc)
            sc2["sims"][i]["beh"]["step_sizes"] = [1]
            yield {"scenario": sc2, "schedules": [sp]}
    for k, v in (("cache", True), ("lazy", True), ("start_seed", None), ("iteration_cost", 0.0)):
        if sc["config"].get(k) != v:
            sc2 = copy.deepcopy(sc)
            sc2["config"][k] = v
            yield {"scenario": sc2, "schedules": [sp]}
