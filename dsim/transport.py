"""In-memory duplex transport under the real asyncio stream classes, and node tasks
running the real ``mosaik_api_v3.run_simulator`` (DESIGN 2.2).

Delivery of every chunk is an external event of the DetLoop with a keyed delay;
per-direction FIFO like TCP.  Faults: kill (process exit / connection close) before a
request is read, inside a handler, after a reply; torn reply frame; send-side error
after the peer has gone (second write to a dead peer => connection_lost(EPIPE))."""
from __future__ import annotations

import asyncio
import contextvars
from collections import deque

import mosaik_api_v3
from mosaik_api_v3.connection import Channel

from . import ctx
from .loop import NODE, h64


class MemTransport(asyncio.Transport):
    def __init__(self, loop, run, sid, side):
        super().__init__()
        self.loop = loop
        self.run = run
        self.sid = sid
        self.side = side              # 'mosaik' or 'node'
        self.peer: "MemTransport" = None  # type: ignore
        self.proto = None
        self.closing = False
        self.lost = False
        self.queue = deque()          # chunks in flight towards the peer
        self.n_sent = 0
        self.last_due = 0.0
        self.dead_writes = 0
        self.node_ctx = None          # context of the node (for deliveries to it)
        self.eof_received = False
        self.bytes_in = 0
        self.node = None
        self.stop_frames_written = 0

    # -- asyncio.Transport API ---------------------------------------------------
    def set_protocol(self, p):
        self.proto = p

    def get_protocol(self):
        return self.proto

    def is_closing(self):
        return self.closing

    def get_extra_info(self, name, default=None):
        return default

    def can_write_eof(self):
        return True

    def get_write_buffer_size(self):
        return 0

    def write(self, data):
        if self.closing:
            return
        if self.side == "mosaik" and b'["stop"' in bytes(data):
            # a 'stop' request frame leaves mosaik (kept outside the history on purpose)
            self.stop_frames_written += 1
        if self.peer.closing or self.peer.lost:
            # peer has gone: like TCP, the first write is swallowed, a later one fails
            self.dead_writes += 1
            self.run.probe("write_to_dead_peer")
            if self.dead_writes >= 2 and not self.lost:
                self.lost = True
                self.closing = True
                self.loop.call_soon(self.proto.connection_lost, BrokenPipeError(32, "Broken pipe"))
            return
        act = None
        if self.side == "node":
            act = self.run.fault_state.get("on_node_write", {}).pop(self.sid, None)
        if act == "torn":
            data = bytes(data)
            self._enqueue(("data", data[: max(1, len(data) // 2)]))
            self.run.rec("fault", "torn_reply", self.sid, None, None, self._others_in_flight())
            self.run.fault_state["fired"] = self.run.fault_state.get("fired", 0) + 1
            self.node.kill()
            return
        data = bytes(data)
        if len(data) > 12 and self.run.sched.split and \
                h64(self.run.sched.seed, self.sid, self.n_sent, "split") % 4 == 0:
            # like TCP, deliver one write in two segments (the reader must reassemble the frame)
            cut = 1 + h64(self.run.sched.seed, self.sid, self.n_sent, "cut") % (len(data) - 1)
            self._enqueue(("data", data[:cut]))
            self._enqueue(("data", data[cut:]))
            self.run.probe("frame_split")
        else:
            self._enqueue(("data", data))
        if act in ("kill", "reset"):
            self.run.rec("fault", "kill_after_reply" if act == "kill" else "reset_after_reply", self.sid, None, None,
                         self._others_in_flight())
            self.run.fault_state["fired"] = self.run.fault_state.get("fired", 0) + 1
            self.node.kill(reset=(act == "reset"))

    def _others_in_flight(self):
        return sum(1 for s, v in self.run.in_flight_mosaik.items() if v > 0 and s != self.sid)

    def write_eof(self):
        self._enqueue(("eof", None))

    def close(self):
        if self.closing:
            return
        self.closing = True
        self._enqueue(("eof", None))
        self.loop.call_soon(self._lost, None)

    def abort(self):
        self.close()

    def reset(self):
        """Close this end; the peer gets connection_lost(ConnectionResetError)."""
        if self.closing:
            return
        self.closing = True
        self._enqueue(("rst", None))
        self.loop.call_soon(self._lost, None)

    def _lost(self, exc):
        if not self.lost:
            self.lost = True
            self.proto.connection_lost(exc)

    # -- delivery ------------------------------------------------------------------
    def _enqueue(self, item):
        n = self.n_sent
        self.n_sent += 1
        phase = "req" if self.side == "mosaik" else "rep"
        d = self.run.sched.delay(self.sid, n, "x" + phase)
        if d is None:
            d = 0.0
        due = max(self.loop.time() + d, self.last_due)
        self.last_due = due
        self.queue.append((n, item))
        cx = self.node_ctx if self.side == "mosaik" else None
        self.loop.ext_event(due - self.loop.time(), (self.sid, n, "x" + phase),
                            self._deliver, context=cx)

    def _deliver(self):
        self.loop.ext_fired += 1
        if not self.queue:
            return
        n, (kind, data) = self.queue.popleft()
        peer = self.peer
        if peer.lost or peer.proto is None:
            return
        hook = self.run.fault_state.get("on_deliver")
        if hook is not None:
            act = hook(self, n, kind, data)
            if act == "drop":
                return
            if isinstance(act, tuple) and act[0] == "torn":
                data = act[1]
        if kind == "data":
            if peer.closing:
                return
            peer.bytes_in += len(data)
            peer.proto.data_received(data)
        elif kind == "rst":
            if peer.closing:
                return
            # like _SelectorTransport._fatal_error: the transport is force-closed and the
            # protocol is told why
            peer.closing = True
            peer.lost = True
            self.run.probe("connection_reset_delivered")
            peer.proto.connection_lost(ConnectionResetError(104, "Connection reset by peer"))
        else:
            if peer.eof_received:
                return
            peer.eof_received = True
            if peer.closing:
                return
            keep = peer.proto.eof_received()
            if not keep:
                peer.close()


def make_pair(loop, run, sid, node_ctx):
    def end(side):
        r = asyncio.StreamReader(loop=loop)
        p = asyncio.StreamReaderProtocol(r, loop=loop)
        t = MemTransport(loop, run, sid, side)
        t.set_protocol(p)
        return r, p, t
    ra, pa, ta = end("mosaik")
    rb, pb, tb = end("node")
    ta.peer, tb.peer = tb, ta
    ta.node_ctx = node_ctx
    pa.connection_made(ta)
    pb.connection_made(tb)
    wa = asyncio.StreamWriter(ta, pa, ra, loop)
    wb = asyncio.StreamWriter(tb, pb, rb, loop)
    return (ra, wa, ta), (rb, wb, tb)


class Node:
    """A simulated simulator process: the real run_simulator over the in-memory link."""

    def __init__(self, run, idx, stub_cls):
        self.run = run
        self.idx = idx
        self.loop = run.loop
        self.stub_cls = stub_cls
        c = contextvars.copy_context()
        c.run(NODE.set, f"node{idx}")
        self.ctx = c
        self.task = None
        self.t_node = None
        self.t_mosaik = None
        self.sim = None
        self.killed = False
        self.exited = False
        self.stop_seen = 0
        run.all_nodes.append(self)

    def connect(self):
        """Create the link; returns mosaik's (reader, writer)."""
        sid_hint = f"node{self.idx}"
        (ra, wa, ta), (rb, wb, tb) = make_pair(self.loop, self.run, sid_hint, self.ctx)
        self.t_node, self.t_mosaik = tb, ta
        tb.node = self
        ta.node = self
        self.task = self.loop.create_task(self._main(rb, wb), context=self.ctx)
        self.task.add_done_callback(self._done)
        return ra, wa

    def set_sid(self, sid):
        self.t_node.sid = sid
        self.t_mosaik.sid = sid

    async def _main(self, reader, writer):
        self.sim = sim = self.stub_cls()
        sim._node = self
        channel = Channel(reader, writer)
        # count 'stop' frames as seen by the node
        orig_next = channel.next_request

        async def next_request():
            req = await orig_next()
            try:
                if req.content[0] == "stop":
                    self.stop_seen += 1
                    self.run.rec("stop", sim.sid or f"node{self.idx}")
            except Exception:
                pass
            return req
        channel.next_request = next_request  # type: ignore
        try:
            await mosaik_api_v3.run_simulator(
                channel, sim, api_compliant=mosaik_api_v3.check_api_compliance(sim))
        finally:
            await channel.close()

    def _done(self, task):
        self.exited = True
        if not task.cancelled():
            task.exception()   # mark retrieved

    def kill(self, reset=False):
        """Process exit: connection closed, task cancelled.  With reset=True the peer does not
        see a clean end of stream but ECONNRESET (what the kernel sends when a process dies
        with unread data in its socket buffer, or with SO_LINGER 0)."""
        if self.killed:
            return
        self.killed = True
        self.run.rec("node_killed", self.t_node.sid)
        if reset:
            self.t_node.reset()
        else:
            self.t_node.close()
        if self.task is not None and not self.task.done():
            self.task.cancel()
