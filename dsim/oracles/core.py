"""Core history oracles: C01 (causal readiness), C02 (exact step set), C03 (data-flow
fidelity), C07 (max_advance), C10 (lazy run-ahead).  One pass over the history."""
from __future__ import annotations

from typing import Any, Dict, List, Optional

from ..refmodel import RM, NOINIT, Conn


class Step:
    __slots__ = ("sid", "tau", "time", "inputs", "max_advance", "q_ask", "q_begin",
                 "q_end_step", "q_end", "ret", "data", "out_tau", "causes", "idx", "n")

    def __init__(self, sid, tau, q):
        self.sid = sid
        self.tau = tau
        self.q_ask = q
        self.q_begin = None
        self.q_end_step = None
        self.q_end = None
        self.time = None
        self.inputs = None
        self.max_advance = None
        self.ret = None
        self.data = None
        self.out_tau = None
        self.causes = None
        self.idx = 0
        self.n = None

    def brief(self):
        return {"sid": self.sid, "tau": list(self.tau) if self.tau else None,
                "q_ask": self.q_ask, "q_end": self.q_end}


class Prod:
    __slots__ = ("out_tau", "value", "q", "step", "delivered")

    def __init__(self, out_tau, value, q, step):
        self.out_tau = out_tau
        self.value = value
        self.q = q
        self.step = step
        self.delivered = set()   # conn ids over which it has been delivered/superseded


class Violation(dict):
    pass


def V(prop, kind, **kw) -> Violation:
    v = Violation(prop=prop, kind=kind)
    v.update(kw)
    return v


def norm_inputs(inputs) -> Dict[tuple, Any]:
    out = {}
    for e, at in (inputs or {}).items():
        for a, vals in (at or {}).items():
            for s, v in (vals or {}).items():
                out[(e, a, s)] = v
    return out


class Analysis:
    def __init__(self):
        self.viol: Dict[str, List[Violation]] = {}
        self.steps: Dict[str, List[Step]] = {}
        self.dem: Dict[str, Dict[tuple, list]] = {}
        self.diag: Dict[str, int] = {}
        self.completed = False
        self.max_run_ahead = 0
        self.n_steps = 0
        self.nontrivial = {}

    def add(self, v: Violation):
        self.viol.setdefault(v["prop"], []).append(v)

    def bump(self, k, n=1):
        self.diag[k] = self.diag.get(k, 0) + n


def analyse(hist, rm: RM, outcome, cfg=None, want=None) -> Analysis:
    """`want`: optional set of property ids to evaluate (default: all core ones)."""
    cfg = cfg or {}
    A = Analysis()
    until = rm.until
    lazy = cfg.get("lazy", True)
    sids = [s["sid"] for s in rm.sims]
    steps: Dict[str, List[Step]] = {sid: [] for sid in sids}
    open_step: Dict[str, Optional[Step]] = {sid: None for sid in sids}
    dem = rm.initial_demands()
    dem_q = {sid_: {t_: -1 for t_ in d_} for sid_, d_ in dem.items()}
    prods: Dict[tuple, List[Prod]] = {}
    c01_bad_steps = set()
    c03_done = False
    has_out = {sid: bool(rm.outof[sid]) for sid in sids}
    pending_setdata: Dict[str, Dict[tuple, Any]] = {sid: {} for sid in sids}
    A.completed = (outcome[0] == "ok")
    # async peers (for C10 / lazy also over async links)
    succ = {sid: set() for sid in sids}
    for e in rm.conns:
        if e.u != e.v:
            succ[e.u].add(e.v)
    for (u, v) in rm.async_links:
        if u != v:
            succ[u].add(v)

    def new_step(sid, tau, q):
        st = Step(sid, tuple(tau) if tau is not None else None, q)
        st.idx = len(steps[sid])
        steps[sid].append(st)
        open_step[sid] = st
        A.n_steps += 1
        tau = st.tau
        if tau is None:
            A.add(V("C02", "no_current_step", sid=sid, q=q))
            return st
        # ---- C02 online
        if len(tau) != rm.depth[sid]:
            A.add(V("C02", "tier_depth", sid=sid, tau=tau, depth=rm.depth[sid], q=q))
        if not (0 <= tau[0] < until):
            A.add(V("C02", "out_of_range", sid=sid, tau=tau, until=until, q=q))
        if st.idx > 0:
            prev = steps[sid][-2]
            if prev.tau is not None and not prev.tau < tau:
                A.add(V("C02", "duplicated" if prev.tau == tau else "out_of_order",
                        sid=sid, tau=tau, prev=prev.tau, q=q))
            if prev.q_end is None:
                A.add(V("C02", "overlapping_steps", sid=sid, tau=tau, q=q))
        causes = dem[sid].get(tau)
        if causes is None:
            A.add(V("C02", "spurious", sid=sid, tau=tau, q=q,
                    known=sorted(dem[sid])[:12]))
            st.causes = []
        else:
            st.causes = list(causes)
        # ---- C01 online, direction (a): a feeder step that matters is still open
        for e in rm.into[sid]:
            if e.u == sid:
                continue
            o = open_step[e.u]
            if o is not None and o.q_end is None and o.tau is not None:
                if e.arr(o.tau) <= tau:
                    A.add(V("C01", "feeder_open", consumer=sid, tau=tau, feeder=e.u,
                            feeder_tau=o.tau, conn=e.kind(), ci=e.ci, q=q))
                    c01_bad_steps.add((sid, st.idx))
        # ---- C01 direction (a'): a feeder step that is already demanded (its cause is in the
        # history) and due for this consumer step has not even begun
        for e in rm.into[sid]:
            if e.u == sid:
                continue
            done_taus = None
            for t_u in dem[e.u]:
                if e.arr(t_u) <= tau:
                    if done_taus is None:
                        done_taus = {x.tau for x in steps[e.u]}
                    if t_u not in done_taus:
                        A.add(V("C01", "feeder_step_pending", consumer=sid, tau=tau, feeder=e.u,
                                feeder_tau=t_u, causes=[c[0] for c in dem[e.u][t_u]],
                                conn=e.kind(), ci=e.ci, q=q))
                        c01_bad_steps.add((sid, st.idx))
                        break
        # ---- C01 direction (b): I am a feeder stepping too late
        for e in rm.outof[sid]:
            if e.v == sid or not steps[e.v]:
                continue
            a = e.arr(tau)
            last = steps[e.v][-1]
            if last.tau is not None and a <= last.tau:
                A.add(V("C01", "late_feeder", feeder=sid, feeder_tau=tau, arrives=a,
                        consumer=e.v, consumer_tau=last.tau, conn=e.kind(), ci=e.ci, q=q))
                c01_bad_steps.add((e.v, last.idx))
        # ---- C01 over async_requests links: the agent feeds the plant through set_data, so the plant
        # is not asked to step at t while a step of the agent before t is open or demanded
        for (pl, ag) in rm.async_links:
            if pl != sid or ag == sid or rm.path_of[pl] != rm.path_of[ag]:
                continue
            o = open_step[ag]
            if o is not None and o.q_end is None and o.tau is not None and o.tau[0] < tau[0]:
                A.add(V("C01", "async_feeder_open", consumer=sid, tau=tau, feeder=ag, feeder_tau=o.tau, q=q))
                c01_bad_steps.add((sid, st.idx))
            else:
                done_taus = {x.tau for x in steps[ag]}
                for t_u in dem[ag]:
                    if t_u[0] < tau[0] and t_u not in done_taus:
                        A.add(V("C01", "async_feeder_step_pending", consumer=sid, tau=tau, feeder=ag,
                                feeder_tau=t_u, q=q))
                        c01_bad_steps.add((sid, st.idx))
                        break
        # ---- C10 (lazy): consumers' earlier steps are finished
        if lazy:
            t = tau[0]
            for v in succ[sid]:
                o = open_step[v]
                if o is not None and o.q_end is None and o.tau is not None and o.tau[0] < t:
                    A.add(V("C10", "consumer_step_open", producer=sid, tau=tau, consumer=v,
                            consumer_tau=o.tau, q=q))
                elif o is not None and o.q_end is None and o.tau is not None and o.tau < tau \
                        and (sid, v) in rm.lazy_full:
                    # same group, no data path resets a sub-time tier: sub-steps are ordered too
                    A.add(V("C10", "consumer_step_open", producer=sid, tau=tau, consumer=v,
                            consumer_tau=o.tau, subtime=True, q=q))
                # demanded-but-not-yet-executed earlier steps of the consumer
                # (checked from the other side below: a consumer step with main time
                # < t that is asked after q)
        # the other side of C10: this step has main time < the main time of a step that
        # one of my producers already began
        if lazy:
            for u in sids:
                if u != sid and sid in succ[u] and steps[u]:
                    lu = steps[u][-1]
                    if lu.tau is not None and tau[0] < lu.tau[0]:
                        A.add(V("C10", "consumer_step_after_producer", producer=u,
                                producer_tau=lu.tau, consumer=sid, tau=tau, q=q))
                    elif lu.tau is not None and tau < lu.tau and (u, sid) in rm.lazy_full:
                        A.add(V("C10", "consumer_step_after_producer", producer=u,
                                producer_tau=lu.tau, consumer=sid, tau=tau, subtime=True, q=q))
        return st

    def new_demand(u, t_u, cause, q):
        """A demand for a step of u at t_u becomes known.  If a consumer of u has already begun a
        step at or after the time this step's output is due, that consumer was stepped too early
        (C01, second formulation) - whether or not the run survives until u's step."""
        known_before = t_u in dem[u]
        dem[u].setdefault(t_u, []).append(cause)
        if known_before:
            return
        dem_q[u][t_u] = q
        for e in rm.outof[u]:
            if e.v == u or not steps[e.v]:
                continue
            a = e.arr(t_u)
            last = steps[e.v][-1]
            if last.tau is not None and a <= last.tau:
                A.add(V("C01", "feeder_demand_after_consumer_step", feeder=u, feeder_tau=t_u, arrives=a,
                        cause=cause[0], consumer=e.v, consumer_tau=last.tau, conn=e.kind(), ci=e.ci, q=q))

    def expected_inputs(sid, st: Step):
        """RM due data (5.4) for this step; also marks event productions delivered."""
        tau = st.tau
        exp: Dict[tuple, Any] = {}
        src: Dict[tuple, str] = {}
        ignore = set()
        either = set()      # keys whose value may be None or absent (carve-out 5)
        for e in rm.into[sid]:
            key = (e.ve, e.va, e.src_full)
            pl = prods.get((e.u, e.ue, e.ua), ())
            if e.carve2:
                ignore.add(key)
            if e.pers:
                val = None
                found = False
                for p in reversed(pl):
                    if e.arr(p.out_tau) <= tau:
                        val = p.value
                        found = True
                        break
                src[key] = "prod"
                if not found:
                    if e.init is not NOINIT:
                        val = e.init
                        src[key] = "init"
                    else:
                        either.add(key)
                        val = None
                        src[key] = "none"
                exp[key] = val
            else:
                best = None
                for p in pl:
                    if e.id in p.delivered:
                        continue
                    a = e.arr(p.out_tau)
                    if a <= tau:
                        if best is None or (a, p.q) > best[0]:
                            best = ((a, p.q), p)
                if best is not None:
                    for p in pl:
                        if e.id not in p.delivered and e.arr(p.out_tau) <= tau:
                            p.delivered.add(e.id)
                    exp[key] = best[1].value
        for key, val in pending_setdata[sid].items():
            exp[key] = val
        pending_setdata[sid].clear()
        return exp, ignore, either, src

    def classify_mismatch(sid, st, key, got, exp_has, exp_val):
        """Name the mismatch class (C03)."""
        ve, va, src_full = key
        conn = None
        for e in rm.into[sid]:
            if (e.ve, e.va, e.src_full) == key:
                conn = e
                break
        if conn is None:
            return "invented", None, None
        pl = prods.get((conn.u, conn.ue, conn.ua), ())
        if got is _ABSENT:
            return "missing", conn, None
        # where does the value we got come from?
        origin = None
        for p in pl:
            if p.value == got:
                origin = p
                break
        if origin is None:
            if got == conn.init and conn.init is not NOINIT:
                return ("stale_initial" if exp_has else "repeated_initial"), conn, None
            if got is None:
                return "none_value", conn, None
            # produced by another source?
            for (u, ue, ua), pl2 in prods.items():
                for p in pl2:
                    if p.value == got:
                        return "misattributed", conn, p
            for e2 in rm.conns:
                if e2.init is not NOINIT and e2.init == got:
                    return "wrong_initial", conn, None
            return "invented", conn, None
        a = conn.arr(origin.out_tau)
        if not a <= st.tau:
            return "not_yet_due", conn, origin
        if not exp_has:
            return "repeated", conn, origin
        return "stale", conn, origin

    _ABSENT = object()

    pend_issue: Dict[str, Optional[Step]] = {sid: None for sid in sids}
    for q, r in enumerate(hist):
        kind = r[0]
        if kind == "issue":
            _, func, sid, tau, n = r
            if func == "step":
                st = new_step(sid, tau, q)
                st.n = n
                pend_issue[sid] = st
        elif kind == "begin":
            _, func, sid, tau, args, n = r
            if func == "step":
                st = pend_issue[sid]
                pend_issue[sid] = None
                if st is None:
                    st = new_step(sid, tau, q)
                st.q_begin = q
                st.time, st.inputs, st.max_advance = args[0], args[1], args[2]
                if st.tau is not None and st.tau[0] != st.time:
                    A.add(V("C02", "time_ne_tier0", sid=sid, tau=st.tau, time=st.time, q=q))
                if st.tau is None:
                    continue
                # ---- C03
                if not c03_done:
                    exp, ignore, either, esrc = expected_inputs(sid, st)
                    if (sid, st.idx) in c01_bad_steps:
                        A.bump("c03_skipped_c01")
                    else:
                        got = norm_inputs(st.inputs)
                        for key in set(got) | set(exp):
                            if key in ignore:
                                continue
                            g = got.get(key, _ABSENT)
                            has = key in exp
                            x = exp.get(key)
                            if key in either and (g is _ABSENT or g is None):
                                continue
                            if has and g is not _ABSENT and g == x:
                                continue
                            cls, conn, origin = classify_mismatch(sid, st, key, g, has, x)
                            A.add(V("C03", cls, sid=sid, tau=st.tau, key=list(key),
                                    got=None if g is _ABSENT else g,
                                    got_absent=g is _ABSENT,
                                    expected=x if has else "<absent>",
                                    expected_src=esrc.get(key, "event" if has else "absent"),
                                    conn=conn.kind() if conn else None,
                                    ci=conn.ci if conn else None,
                                    origin_tau=origin.out_tau if origin else None,
                                    arr=conn.arr(origin.out_tau) if (conn and origin) else None,
                                    q=q))
                            c03_done = True
                            break
                # ---- C07 (a), (b)
                m = st.max_advance
                if isinstance(m, int):
                    if m > until:
                        A.add(V("C07", "exceeds_until", sid=sid, tau=st.tau, max_advance=m,
                                until=until, q=q))
                    if not rm.has_trigger_input[sid] and m != until and \
                            not (cfg.get("rt_factor") and sid in _event_sids(rm)):
                        # (real-time mode: a simulator for which set_event steps may already be booked
                        # is promised less than `until`, sensibly; everybody else still gets `until`)
                        A.add(V("C07", "not_until_without_triggers", sid=sid, tau=st.tau,
                                max_advance=m, until=until, q=q))
                    if m < st.time:
                        A.bump("max_advance_below_time")
        elif kind == "end":
            _, func, sid, ret, n = r
            st = open_step[sid]
            if func == "step":
                if st is None:
                    continue
                st.ret = ret
                st.q_end_step = q
                if not has_out[sid]:
                    st.q_end = q
                if isinstance(ret, int) and not isinstance(ret, bool) and ret < until \
                        and st.tau is not None and ret > st.tau[0]:
                    new_demand(sid, rm.lift(sid, ret), ("self", sid, st.idx), q)
            elif func == "get_data":
                if st is None or st.q_end_step is None or st.q_end is not None:
                    A.bump("get_data_outside_step")
                    continue
                st.q_end = q
                st.data = ret
                if st.tau is None:
                    continue
                ot = ret.get("time", st.tau[0]) if isinstance(ret, dict) else st.tau[0]
                st.out_tau = st.tau if ot == st.tau[0] else rm.lift(sid, ot)
                seen = set()
                for e in rm.outof[sid]:
                    if isinstance(ret, dict) and e.ue in ret and isinstance(ret[e.ue], dict) \
                            and e.ua in ret[e.ue]:
                        pk = (sid, e.ue, e.ua)
                        if pk not in seen:
                            seen.add(pk)
                            prods.setdefault(pk, []).append(
                                Prod(st.out_tau, ret[e.ue][e.ua], q, st))
                        if e.trig:
                            a = e.arr(st.out_tau)
                            if a[0] < until:
                                new_demand(e.v, a, ("trigger", sid, st.idx, e.id), q)
        elif kind == "async_done":
            _, sid, what, qcall, res = r
            if what == "set_data":
                payload = hist[qcall][3]
                for src_full, dests in payload.items():
                    for dst_full, attrs in dests.items():
                        dsid, deid = dst_full.split(".", 1)
                        for a, val in attrs.items():
                            if dsid in pending_setdata:
                                pending_setdata[dsid][(deid, a, src_full)] = val
        elif kind == "set_event_processed":
            _, sid, t = r
            if cfg.get("rt_factor") is not None and isinstance(t, int) and t < until:
                # (an accepted event is a demand like any other: no consumer may have begun a step at or
                # after the time its output is due - the real-time cap on progress guarantees that)
                new_demand(sid, rm.lift(sid, t), ("event",), q)

    A.steps = steps
    A.dem = dem
    A.dem_q = dem_q          # position in the history at which a demand became known (initial: -1)
    # ---- C02 final: executed set == demand set (completed runs only)
    if A.completed:
        for sid in sids:
            ex = [s.tau for s in steps[sid] if s.tau is not None]
            exs = set(ex)
            for tau in sorted(dem[sid]):
                if tau not in exs:
                    A.add(V("C02", "lost", sid=sid, tau=tau, causes=[c[0] for c in dem[sid][tau]],
                            executed=sorted(exs)[:20]))
                    break
    # ---- C07 (c): promise kept
    for sid in sids:
        sl = steps[sid]
        for i, st in enumerate(sl):
            m = st.max_advance
            if not isinstance(m, int) or st.tau is None:
                continue
            t = st.tau[0]
            for x in sl[i + 1:]:
                if x.tau is None:
                    continue
                if x.tau[0] > m:
                    break
                if x.tau[0] <= t:
                    continue
                causes = dem[sid].get(x.tau, [])
                if cfg.get("rt_factor") and any(_from_event(c, steps, dem, {}) for c in causes):
                    # (external events of real-time mode, and whatever they trigger down the line: nobody
                    # can foresee them)
                    continue
                dep = [_dependent(c, sid, t, steps, dem, {}) for c in causes]
                if causes and not any(dep):
                    A.add(V("C07", "broken_promise", sid=sid, tau=st.tau, max_advance=m,
                            later=x.tau, causes=[list(map(_j, c)) for c in causes][:4]))
                    break
                if causes and not all(dep):
                    A.bump("c07_strict_only")
    # ---- run-ahead statistic (C10 evidence)
    A.nontrivial = {
        "n_steps": A.n_steps,
    }
    return A


def _j(x):
    return list(x) if isinstance(x, tuple) else x


def _event_sids(rm):
    """Simulators for which steps may be booked with set_event (real-time mode)."""
    r = getattr(rm, "_event_sids", None)
    if r is None:
        r = {s["sid"] for s in rm.sims
             if s.get("set_events") or s.get("events")
             or any(c.get("kind") == "set_event" for c in (s["beh"].get("async_calls") or ()))}
        rm._event_sids = r
    return r


def _from_event(cause, steps, dem, memo) -> bool:
    """Does this cause go back to an external event (set_event)?"""
    kind = cause[0]
    if kind == "event":
        return True
    if kind == "initial":
        return False
    key = (cause[1], cause[2])
    if key in memo:
        return memo[key]
    memo[key] = False       # cycle guard
    y = steps[cause[1]][cause[2]]
    r = y.tau is not None and any(_from_event(c, steps, dem, memo) for c in dem[cause[1]].get(y.tau, []))
    memo[key] = r
    return r


def _dependent(cause, sid, t, steps, dem, memo) -> bool:
    """Is this cause traceable to something `sid` itself produced at or after main
    time t?  (C07)"""
    kind = cause[0]
    if kind in ("initial", "event"):
        return False
    src_sid, idx = cause[1], cause[2]
    key = (src_sid, idx)
    if key in memo:
        return memo[key]
    y = steps[src_sid][idx]
    if y.tau is None:
        memo[key] = False
        return False
    if src_sid == sid and y.tau[0] >= t:
        memo[key] = True
        return True
    memo[key] = False   # cycle guard
    cs = dem[src_sid].get(y.tau, [])
    r = any(_dependent(c, sid, t, steps, dem, memo) for c in cs)
    memo[key] = r
    return r
