"""Core swarm: C01, C02, C03, C05, C07, C10 evaluated on the same executions."""
from __future__ import annotations

import copy
import json
from typing import Any, Dict, List

from .. import gen, runner
from ..engine import digest
from ..loop import h64
from ..oracles import core as ocore
from ..refmodel import NOINIT, RM, common_len

ENGINE = "core"
CORE_PROPS = ("C01", "C02", "C03", "C05", "C07", "C10")
LEVEL = "exploration"
_CO1 = "two connections from one source entity into one (entity, attr): the input dict holds one value per source entity"
_CO2 = "initial_data on a connection whose source attribute is non-persistent: generated, but exempt from the C03 comparison"
_CO3 = "replies carrying persistent attributes together with a future time: not generated"
_CO5 = "no initial data on a time-shifted/weak persistent->trigger connection: None and 'absent' both accepted before the first due output"
CARVE_OUTS = {"C01": [_CO1, _CO3], "C02": [_CO1, _CO3], "C03": [_CO1, _CO2, _CO3, _CO5], "C05": [_CO1, _CO3],
              "C07": [_CO1, _CO3], "C10": [_CO1, _CO3]}


def make_case(seed: int, tier: str, prop: str, opts=None) -> Dict[str, Any]:
    opts = opts or {}
    force = dict(opts.get("force") or {})
    fam = h64(seed, "family") % 20
    if prop == "C05" and fam < 2 and not force:
        # completion also for same-time loops around the bound ...
        sc = gen.gen_loop(seed, tier)
    elif ((prop == "C05" and fam < 4) or (prop in ("C07", "C01", "C02") and fam in (13, 14))) and not force:
        # ... and for plants with async_requests agents (legal requests only)
        sc = gen.gen_async(seed, tier)
        sc.pop("illegal_async", None)
        for s_ in sc["sims"]:
            if s_["beh"].get("async_calls"):
                s_["beh"]["async_calls"] = [c for c in s_["beh"]["async_calls"] if not c.get("illegal")]
        for c in sc["conns"]:
            if c.get("async") is False:
                c["async"] = True
    elif prop == "C10" and fam in (16, 17) and not force:
        # same-time loops with attached consumers: sub-steps are ordered by lazy stepping too
        sc = gen.gen_loop(seed, tier)
    elif ((prop in ("C10", "C07", "C01", "C05") and fam == 18) or (prop == "C01" and fam == 17)) and not force:
        # lazy stepping also bounds run-ahead in real-time mode (consumers slower than the clock);
        # max_advance is the same promise in real-time mode; so is causal input readiness (external
        # events are demands from the moment mosaik has processed them)
        c = gen.gen_rt(seed, tier)
        sc = c["scenario"]
        if sc["config"].get("rt_factor") is None:
            sc["config"]["rt_factor"] = sc["rt"]["f"]
        sc["config"]["rt_strict"] = False
        if prop == "C10":
            sc["config"]["lazy"] = True
        if prop == "C01":
            # a simulator that receives external events should have somebody who consumes its output
            ev = [i for i, s_ in enumerate(sc["sims"]) if s_.get("events")]
            if ev and len(sc["sims"]) >= 2 and not any(c_["src"] in ev and c_["dst"] != c_["src"] for c_ in sc["conns"]):
                i = ev[0]
                j = next(k_ for k_ in range(len(sc["sims"])) if k_ != i)
                if not any(c_["src"] == j and c_["dst"] == i for c_ in sc["conns"]):
                    va = "m_in" if sc["sims"][j]["type"] != "event-based" else "t_in"
                    sc["conns"].append({"src": i, "se": 0, "dst": j, "de": 0, "pairs": [["e_out", va]],
                                        "shift": 0, "weak": False})
        return {"scenario": sc, "schedules": [c["schedule"]]}
    elif (fam == 19 or (prop == "C01" and fam == 11)) and not force:
        sc = gen.gen_deeptail(seed, tier) if h64(seed, "family2") % 10 < 3 else gen.gen_twopath(seed, tier)
    elif fam == 12 and not force:
        sc = gen.gen_diamond(seed, tier)
    else:
        if prop == "C03":
            # C03 attributes every input value to the production it came from: values must be unique
            force["none_values"] = False
        sc = gen.gen_core(seed, tier, force=force or None,
                          transport_mix=opts.get("transport_mix", "mixed"))
    if prop == "C10":
        sc["config"]["lazy"] = True
    k = opts.get("schedules", 3 if tier == "quick" else 6)
    scheds = [gen.gen_schedule(seed, sc, j) for j in range(k)]
    case = {"scenario": sc, "schedules": scheds}
    if prop in ("C10", "C01") and fam == 15 and not force and len(sc["sims"]) >= 2:
        # a simulator fails inside one of its steps: while run() unwinds, nobody that feeds it (C10) or
        # is fed by it (C01) may be released - the step it never finished stays outstanding
        import random as _r
        rng = _r.Random(h64(seed, "c10fault"))
        case["faults"] = [{"sid": rng.choice(sc["sims"])["sid"], "req": rng.choice([1, 2, 3, 4, 5, 6, 7, 8]),
                           "phase": "pre", "kind": "raise"}]
    return case


def group_relation(rm: RM, u, v):
    pu, pv = rm.path_of[u], rm.path_of[v]
    c = common_len(pu, pv)
    if pu == pv:
        return "same"
    if c == len(pu) or c == len(pv):
        return "nested"
    if c == 1:
        return "root_only"
    return "sibling"


def conn_features(rm: RM, e, cfg) -> Dict[str, Any]:
    f = {"weak": e.weak, "shifted": e.k > 0, "pers": e.pers, "trig": e.trig,
         "cache": bool(cfg.get("cache", True)), "groups": group_relation(rm, e.u, e.v)}
    shared = False
    if cfg.get("cache", True) and e.pers:
        for e2 in rm.outof[e.u]:
            if e2 is e or not e2.pers:
                continue
            if e.init is NOINIT and e2.init is NOINIT:
                continue
            if e2.k != e.k or ((e2.ue, e2.ua) == (e.ue, e.ua) and e2.init != e.init):
                shared = True
    f["init_cache_shared"] = shared
    return f


def static_probes(rm: RM, sc) -> Dict[str, int]:
    p = {}
    pairs = {}
    for e in rm.conns:
        rel = group_relation(rm, e.u, e.v)
        if rel in ("sibling", "root_only") and len(rm.path_of[e.u]) > 1 and len(rm.path_of[e.v]) > 1:
            p["sibling_group_connection"] = 1
        if e.weak:
            p["weak_connection"] = 1
        if e.k:
            p["shifted_connection"] = 1
        if e.u == e.v:
            p["self_connection"] = 1
        if e.pers and e.trig:
            p["persistent_to_trigger"] = 1
        if not e.pers and not e.trig:
            p["event_to_nontrigger"] = 1
        pairs.setdefault((e.u, e.v), set()).add((e.k, e.weak))
    if any(len(v) > 1 for v in pairs.values()):
        p["parallel_delays"] = 1
    # a path that leaves a group and re-enters it
    for e in rm.conns:
        for e2 in rm.outof[e.v]:
            pu, pm, pw = rm.path_of[e.u], rm.path_of[e.v], rm.path_of[e2.v]
            if common_len(pu, pw) > common_len(pu, pm):
                p["leave_reenter_path"] = 1
    if len(sc.get("groups") or [None]) > 1:
        p["groups"] = 1
    return p


def waiting_summary(r):
    """Who waits for what at the moment of a deadlock (diagnostic only)."""
    out = {}
    try:
        for sid, s in r.run.world.sims.items():
            out[sid] = {"progress": repr(s.progress.time), "next": repr(s.next_steps[:2]),
                        "waiters_on_my_progress": [
                            (repr(t), repr(sh), bool(p)) for (t, sh, p), f in s.progress._futures
                            if not f.done()][:4]}
    except Exception:  # noqa: BLE001
        pass
    return out


def analyse_run(sc, rm: RM, r, want=None, want_lazy_probe=True):
    """-> (violations by prop, per-run info)"""
    cfg = sc["config"]
    oc = r.outcome
    A = ocore.analyse(r.hist, rm, oc, cfg)
    viols: Dict[str, List[Dict[str, Any]]] = {}
    info = {"completed": 0, "aborted": 0, "stats": {}}
    st = info["stats"]

    def bump(k, n=1):
        st[k] = st.get(k, 0) + n
    died = None
    # ---- outcome classification (C05)
    guard_expected = any(any(x >= cfg.get("mli", 100) for x in tau[1:])
                         for d in A.dem.values() for tau in d)
    if oc[0] == "ok":
        info["completed"] = 1
        if guard_expected:
            bump("guard_missing")      # C09's matter
    else:
        info["aborted"] = 1
        if oc[0] == "deadlock":
            feats = {"phase": oc[1], "lazy": bool(cfg.get("lazy", True)),
                     "leave_reenter_path": bool(static_probes(rm, sc).get("leave_reenter_path"))}
            if feats["lazy"] and want_lazy_probe:
                # does the same execution complete without lazy stepping?
                sc2 = copy.deepcopy(sc)
                sc2["config"]["lazy"] = False
                r2 = runner.execute(sc2, r.sched.spec(), faults=r.faults or None)
                feats["completes_without_lazy"] = (r2.outcome[0] == "ok")
            viols.setdefault("C05", []).append(
                {"kind": "deadlock", "features": feats,
                 "detail": {"outcome": oc, "waiting": waiting_summary(r)}})
        elif oc[0] == "hang":
            viols.setdefault("C05", []).append(
                {"kind": "hang", "features": {"where": oc[1]},
                 "detail": {"outcome": oc, "tb": (r.tb or "")[-1200:]}})
        elif oc[0] == "livelock":
            viols.setdefault("C05", []).append(
                {"kind": "livelock", "features": {"phase": oc[1]}, "detail": {"outcome": oc}})
        elif oc[0] == "exception":
            _, typ, msg, where = oc
            if typ == "SimulationError" and "has performed a sub-step more than" in msg:
                if guard_expected:
                    bump("loop_guard_expected")
                else:
                    bump("loop_guard_unexpected")   # C09's matter in the first place ...
                    # ... and a run that does not complete although every same-time loop stays below
                    # the bound
                    viols.setdefault("C05", []).append(
                        {"kind": "loop_guard_fired_below_bound", "features": {},
                         "detail": {"outcome": list(oc), "mli": cfg.get("mli", 100)}})
                    died = "loop_guard_below_bound"
            else:
                head = msg.split(":")[0][:40] if typ == "AssertionError" else \
                    " ".join(msg.split()[:6])[:50]
                import re
                head = re.sub(r"[-\w]*\d[-\w:]*", "#", head)
                if "incomparable" in msg:
                    head = "incomparable"
                viols.setdefault("C05", []).append(
                    {"kind": f"internal:{typ}", "features": {"where": where, "msg": head},
                     "detail": {"outcome": oc, "tb": (r.tb or "")[-1200:]}})
                died = f"internal:{typ}"
        elif oc[0] == "scenario_error":
            bump("rejected_by_cycle_check")        # C06's matter
        elif oc[0] == "start_error":
            raise RuntimeError(f"harness: start_error {oc}")
        else:
            bump("outcome_" + oc[0])
    if oc[0] in ("deadlock", "hang", "livelock"):
        died = oc[0]
    if died is not None and "C02" not in A.viol:
        # the run did not return although the scenario is valid and the simulators are compliant
        # (C05's finding); seen from C02, the steps that were already demanded are lost
        lost = None
        for sid in sorted(A.dem):
            exs = {s_.tau for s_ in A.steps[sid] if s_.tau is not None}
            for tau in sorted(A.dem[sid]):
                if tau not in exs:
                    lost = (sid, tau)
                    break
            if lost:
                break
        if lost is not None:
            msg = oc[2] if oc[0] == "exception" else ""
            viols.setdefault("C02", []).append(
                {"kind": "lost_run_did_not_return",
                 "features": {"how": died, "incomparable": "incomparable" in msg},
                 "detail": {"outcome": list(oc), "first_lost": [lost[0], list(lost[1])]}})
    if r.world_info.get("debug_left_enabled"):
        # run() has returned or raised, but mosaik's process-wide debug hooks are still installed: the
        # next World of this process - a perfectly valid one - dies in its first step
        viols.setdefault("C05", []).append(
            {"kind": "debug_hooks_left_installed", "features": {"run_outcome": oc[0]},
             "detail": {"outcome": list(oc)[:3]}})
    if any(v[0] != "ok" for v in r.connects):
        bump("connect_rejected_by_mosaik")         # C11's matter
    # ---- oracle violations
    for p, vs in A.viol.items():
        v = vs[0]
        feats: Dict[str, Any] = {}
        ci = v.get("ci")
        e = None
        if ci is not None:
            for x in rm.conns:
                if x.ci == ci and (p != "C03" or [x.ve, x.va, x.src_full] == v.get("key")):
                    e = x
                    break
            if e is None:
                for x in rm.conns:
                    if x.ci == ci:
                        e = x
                        break
        if e is not None:
            feats.update(conn_features(rm, e, cfg))
        if p == "C03":
            feats["subtier_early"] = bool(
                v["kind"] == "not_yet_due" and v.get("arr") and v["tau"][0] == v["arr"][0])
            feats["expected_initial"] = v.get("expected_src") in ("init", "none")
        if p == "C01":
            feats["lazy"] = bool(cfg.get("lazy", True))
        viols.setdefault(p, []).append({"kind": v["kind"], "features": feats, "detail": dict(v)})
    for k, n in A.diag.items():
        bump(k, n)
    # ---- reach probes from the history
    if any(s.tau is not None and any(x > 0 for x in s.tau[1:])
           for sl in A.steps.values() for s in sl):
        bump("same_time_substeps")
    info["steps"] = A.n_steps
    return viols, info


def concurrency(hist):
    """max number of requests to different simulators in flight (mosaik side)."""
    open_ = set()
    mx = 0
    trig_in_flight = 0
    for r in hist:
        k = r[0]
        if k == "issue":
            open_.add(r[2])
            if len(open_) > mx:
                mx = len(open_)
        elif k in ("done", "done_exc"):
            open_.discard(r[2])
    return mx


def fingerprint(hist) -> int:
    return h64(tuple((r[0][0], r[1][0], r[2]) for r in hist
                     if r[0] in ("issue", "begin", "end", "done")))


def run_case(case, prop) -> Dict[str, Any]:
    sc = case["scenario"]
    rm = RM(sc)
    out = {"runs": 0, "violations": [], "stats": {}, "fps": set(), "ntfps": set(),
           "scen": {h64(json.dumps(sc, sort_keys=True))}, "sim_time": 0.0, "steps": 0,
           "aborted": 0, "completed": 0}
    st = out["stats"]
    for k, n in static_probes(rm, sc).items():
        st["scen_" + k] = st.get("scen_" + k, 0) + n
    digs = []
    reported = set()
    if any(v is not None for v in rm.verdicts) or rm.unresolved_cycles():
        # outside the compliance envelope (can only happen while shrinking)
        st["invalid_scenario"] = 1
        out["digest"] = "invalid"
        return out
    for j, sp in enumerate(case["schedules"]):
        r = runner.execute(sc, sp, faults=case.get("faults"))
        out["runs"] += 1
        out["sim_time"] += r.stats["vtime"]
        hd = digest(r.hist)
        digs.append(hd)
        viols, info = analyse_run(sc, rm, r)
        if sc.get("rt") and prop in ("C01", "C05"):
            # real-time family: as in C17, runs in which a set_event request was already in the past when
            # mosaik processed it are outside the property's envelope and not judged
            from . import c17 as _c17
            _, i17 = _c17.analyse(sc, sp, r)
            if i17["past_event"]:
                viols = {}
                st["rt_runs_not_judged"] = st.get("rt_runs_not_judged", 0) + 1
        out["steps"] += info["steps"]
        out["aborted"] += info["aborted"]
        out["completed"] += info["completed"]
        for k, n in info["stats"].items():
            st[k] = st.get(k, 0) + n
        fp = fingerprint(r.hist)
        out["fps"].add(fp)
        mc = concurrency(r.hist)
        if mc >= 2:
            st["two_in_flight"] = st.get("two_in_flight", 0) + 1
            out["ntfps"].add(h64(next(iter(out["scen"])), fp))
        if r.stats["ties"]:
            st["ties_broken"] = st.get("ties_broken", 0) + 1
        st["ext_events"] = st.get("ext_events", 0) + r.stats["ext_fired"]
        st["profile_" + sp.get("profile", "sync")] = st.get("profile_" + sp.get("profile", "sync"), 0) + 1
        for v in viols.get(prop, []):
            key = (v["kind"], json.dumps(v["features"], sort_keys=True))
            if key in reported:
                continue
            reported.add(key)
            v["digest"] = hd
            v["case"] = {"scenario": sc, "schedules": [sp]}
            if case.get("faults"):
                v["case"]["faults"] = case["faults"]
            out["violations"].append(v)
        if "sample" not in out and j == len(case["schedules"]) - 1:
            out["sample"] = {"scenario": sc, "schedule": sp, "outcome": list(r.outcome)[:2],
                             "n_records": len(r.hist), "steps": info["steps"]}
    out["digest"] = digest(digs)
    return out


# ------------------------------------------------------------------ shrinking
def shrink_candidates(case, prop):
    """Smaller variants of a (scenario, single schedule) case, cheapest first."""
    sc = case["scenario"]
    sp = case["schedules"][0]

    def mk(sc2=None, sp2=None):
        return {"scenario": sc2 if sc2 is not None else sc,
                "schedules": [sp2 if sp2 is not None else sp],
                **({"faults": case["faults"]} if case.get("faults") else {})}
    # 1. schedule
    if sp.get("profile") not in ("sync",):
        yield mk(sp2={"profile": "sync", "seed": 0})
        if sp.get("profile") != "zero":
            yield mk(sp2={"profile": "zero", "seed": sp.get("seed", 0)})
    # 1b. zero individual delay keys (delays are keyed by (sid, ordinal, phase), so the rest of
    # the schedule is unchanged): halves first, then single keys
    if sp.get("profile") not in ("sync", "zero"):
        try:
            r0 = runner.execute(sc, sp, faults=case.get("faults"))
            keys = sorted(k for k, d in r0.sched.used.items() if d and k not in set(sp.get("zeroed", ())))
        except Exception:  # noqa: BLE001
            keys = []
        already = list(sp.get("zeroed", ()))
        if keys:
            h = len(keys) // 2
            parts = [keys[:h], keys[h:]] if h else []
            q = len(keys) // 4
            if q:
                parts += [keys[:q], keys[q:2 * q], keys[2 * q:3 * q], keys[3 * q:]]
            for part in parts:
                if part:
                    yield mk(sp2=dict(sp, zeroed=already + part))
            for k in keys[:30]:
                yield mk(sp2=dict(sp, zeroed=already + [k]))
    # 2. drop simulators
    n = len(sc["sims"])
    for i in reversed(range(n)):
        if n <= 1:
            break
        sc2 = copy.deepcopy(sc)
        del sc2["sims"][i]
        conns = []
        for c in sc2["conns"]:
            if c["src"] == i or c["dst"] == i:
                continue
            c = dict(c)
            c["src"] -= c["src"] > i
            c["dst"] -= c["dst"] > i
            conns.append(c)
        sc2["conns"] = conns
        yield mk(sc2)
    # 3. drop connections / pairs
    for i in reversed(range(len(sc["conns"]))):
        sc2 = copy.deepcopy(sc)
        del sc2["conns"][i]
        yield mk(sc2)
    for i, c in enumerate(sc["conns"]):
        if len(c["pairs"]) > 1:
            for j in range(len(c["pairs"])):
                sc2 = copy.deepcopy(sc)
                del sc2["conns"][i]["pairs"][j]
                yield mk(sc2)
    # 4. until
    if sc["until"] > 1:
        for u in sorted({1, sc["until"] // 2, sc["until"] - 1}):
            if 1 <= u < sc["until"]:
                sc2 = copy.deepcopy(sc)
                sc2["until"] = u
                yield mk(sc2)
    # 5. groups: move every simulator to the root
    if len(sc.get("groups") or [None]) > 1:
        sc2 = copy.deepcopy(sc)
        if not any(c.get("weak") for c in sc2["conns"]):
            for s in sc2["sims"]:
                s["group"] = 0
            sc2["groups"] = [None]
            yield mk(sc2)
        for g in range(1, len(sc["groups"])):
            # move the members of group g to its parent
            sc2 = copy.deepcopy(sc)
            par = sc2["groups"][g]
            moved = False
            for s in sc2["sims"]:
                if s.get("group", 0) == g:
                    s["group"] = par
                    moved = True
            if moved:
                yield mk(sc2)
    # 6. connection attributes
    for i, c in enumerate(sc["conns"]):
        if c.get("shift", 0) > 1:
            sc2 = copy.deepcopy(sc)
            sc2["conns"][i]["shift"] = 1
            yield mk(sc2)
        if c.get("shift") and not c.get("weak"):
            sc2 = copy.deepcopy(sc)
            sc2["conns"][i]["shift"] = 0
            yield mk(sc2)
        if c.get("weak"):
            sc2 = copy.deepcopy(sc)
            sc2["conns"][i]["weak"] = False
            yield mk(sc2)
    # 7. simulators: one entity, simple behaviour, gated transport
    for i, s in enumerate(sc["sims"]):
        if s.get("n_ent", 1) > 1 and not any(
                (c["src"] == i and c.get("se")) or (c["dst"] == i and c.get("de")) for c in sc["conns"]):
            sc2 = copy.deepcopy(sc)
            sc2["sims"][i]["n_ent"] = 1
            yield mk(sc2)
        if s.get("transport") != "gated":
            sc2 = copy.deepcopy(sc)
            sc2["sims"][i]["transport"] = "gated"
            yield mk(sc2)
        b = s["beh"]
        simple = dict(b)
        changed = False
        for k, v in (("react", False), ("future", False), ("explicit_time", False), ("vary", False)):
            if simple.get(k):
                simple[k] = v
                changed = True
        if s["type"] == "time-based" and len(b.get("step_sizes", [1])) > 1:
            simple["step_sizes"] = [b["step_sizes"][0]]
            changed = True
        if changed:
            sc2 = copy.deepcopy(sc)
            sc2["sims"][i]["beh"] = simple
            yield mk(sc2)
        if s["type"] != "time-based":
            for k, v in (("p_self", 0.0), ("p_out", 1.0), ("loop_len", 1)):
                if b.get(k) != v:
                    sc2 = copy.deepcopy(sc)
                    sc2["sims"][i]["beh"][k] = v
                    yield mk(sc2)
        if s.get("meta_style"):
            sc2 = copy.deepcopy(sc)
            sc2["sims"][i]["meta_style"] = 0
            yield mk(sc2)
        if s.get("init_event") not in (None, 0):
            sc2 = copy.deepcopy(sc)
            sc2["sims"][i]["init_event"] = 0
            yield mk(sc2)
    # 8. configuration defaults
    cfg = sc["config"]
    for k, v in (("debug", False), ("iteration_cost", 0.0), ("start_seed", None),
                 ("connect_seed", None), ("order_seed", None), ("mli", 100),
                 ("cache", True), ("lazy", True)):
        if cfg.get(k) != v:
            if prop == "C10" and k == "lazy":
                continue
            sc2 = copy.deepcopy(sc)
            sc2["config"][k] = v
            yield mk(sc2)
    if sc.get("feats"):
        sc2 = copy.deepcopy(sc)
        sc2.pop("feats")
        yield mk(sc2)
