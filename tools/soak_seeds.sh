#!/bin/bash
# usage: tools/soak_seeds.sh <first seed> <last seed> [tier] [seconds]  -- false-alarm hunt: every registered check at
# other VERIF_SEED values (the harness may pass any); prints one line per (seed, check), and every
# VIOLATION / HARNESS-ERROR line.  Meant for `vp run --with-repo -- bash -c 'PYTHONPATH=$VP_RUN_REPO tools/soak_seeds.sh 1 40'`.
cd "$(dirname "$0")/.."
first=${1:-1}; last=${2:-10}; tier=${3:-quick}; secs=${4:-}
props="C01 C02 C03 C04 C05 C06 C07 C09 C10 C11 C13 C14 C15 C16 C17 C18"
for s in $(seq $first $last); do
  for p in $props; do
    out=$(VERIF_SEED=$s ./check $p --tier $tier ${secs:+--seconds $secs} --no-evidence 2>&1); code=$?
    echo "seed=$s $p exit=$code $(echo "$out" | tail -1 | cut -c1-150)"
    [ $code -ne 0 ] && echo "$out" | grep -E "^(VIOLATION|HARNESS-ERROR|violation|  detail|note)" | cut -c1-400
  done
done
