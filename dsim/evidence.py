"""Evidence files (DESIGN 9): what a check run actually covered."""
from __future__ import annotations

import json
import os

from .engine import ROOT, jdump

COMPONENTS = {
    "real": ["mosaik.scenario", "mosaik.scheduler", "mosaik.simmanager", "mosaik.progress",
             "mosaik.tiered_time", "mosaik.proxies (LocalProxy, RemoteProxy)", "mosaik.adapters",
             "mosaik.internal_util", "mosaik.in_or_out_set", "mosaik._debug", "mosaik.util",
             "mosaik_api_v3 Channel/run_simulator (remote transports)",
             "asyncio streams/tasks/futures"],
    "stub": ["simulators (dsim.stubs.StubSim & variants)",
             "kernel sockets -> in-memory duplex transport (dsim.transport)",
             "process start -> in-process node tasks",
             "event loop selector + clock -> DetLoop (virtual time, one PRNG)"],
}


def write_evidence(prop, tier, seed, mod, agg, matched, kf_state, n_new, wall, opts):
    os.makedirs(os.path.join(ROOT, "evidence"), exist_ok=True)
    stats = dict(sorted(agg["stats"].items()))
    runs = agg["runs"]
    rule = getattr(mod, "RULES", {}).get(prop) or getattr(mod, "RULE", None) or (
        "cases are generated from blake2b(VERIF_SEED/property/index); a case counts as "
        "distinct+non-trivial when its (scenario digest, interleaving fingerprint) pair is new "
        "and at least two requests to different simulators were in flight at once")
    faults = {k[len("fault_"):]: v for k, v in stats.items() if k.startswith("fault_")}
    probes = {k: v for k, v in stats.items()
              if not k.startswith(("fault_", "profile_"))}
    zero_probes = [k for k in getattr(mod, "EXPECTED_PROBES", {}).get(prop, ()) if not stats.get(k)]
    cov = {
        "evaluations": runs,
        "distinct_nontrivial": len(agg["ntfps"]),
        "rule": rule,
        "samples": agg["samples"][:2] or [{"note": "no sample recorded"}],
        "cases": agg["cases"],
        "runs_completed": agg["completed"],
        "runs_aborted": agg["aborted"],
        "runs_per_hour": round(runs / max(agg["wall_s"], 1e-9) * 3600),
        "simulated_time_virtual_s": round(agg["sim_time"], 3),
        "steps_simulated": agg["steps"],
        "distinct_scenarios": len(agg["scen"]),
        "distinct_interleavings": len(agg["fps"]),
        "latency_profiles": {k[len("profile_"):]: v for k, v in stats.items() if k.startswith("profile_")},
        "faults_fired": faults,
        "reach_probes": probes,
        "probes_at_zero": zero_probes,
        "determinism_rechecks": agg["recheck"],
        "determinism_mismatches": len(agg["recheck_bad"]),
        "known_findings_matched": matched,
        "known_findings_replayed": kf_state,
        "harness_errors": len(agg["harness"]),
        "components": COMPONENTS,
        "carve_outs": getattr(mod, "CARVE_OUTS", {}).get(prop, []),
        "options": opts,
        "exhaustive": False,
    }
    ev = {
        "property_id": prop,
        "tier": tier,
        "seed": seed,
        "level": getattr(mod, "LEVELS", {}).get(prop, getattr(mod, "LEVEL", "exploration")),
        "coverage": cov,
        "assumptions": getattr(mod, "ASSUMPTIONS", {}).get(prop, []) + [
            "stub simulators are deterministic functions of (seed, sid, time, ordinal[, inputs])",
            "FIFO order of asyncio's ready queue is preserved; only arrival instants of external "
            "events and timers are scheduled by the PRNG",
            "a clean batch is evidence, not proof",
        ],
        "wall_s": round(wall, 2),
        "violations": n_new,
    }
    path = os.path.join(ROOT, "evidence", f"{prop}.json")
    with open(path, "w") as f:
        f.write(jdump(ev, indent=1))
    return path
