"""C15 -- API version adaptation (version swarm, DESIGN 6.C15)."""
from __future__ import annotations

import copy
import json
import random
from typing import Any, Dict

from .. import gen, runner
from ..engine import digest
from ..loop import h64
from ..oracles.core import norm_inputs
from . import core as pcore

ENGINE = "c15"
LEVEL = "exploration"
RULE = ("a case is a 2-3 simulator time-based/hybrid chain in which one simulator announces an "
        "api_version from {absent,1,2,2.0,2.1,2.2,2.3,2.4.1,3,3.0,3.0.9,3.1,4,4.0,10.2}, with or "
        "without an (equal/different) api_version in the sim config, implemented by a stub with "
        "old or new method signatures, in-process or remote, run under a latency schedule and "
        "compared with the same scenario declared as 3.0; distinct+non-trivial = distinct "
        "(version, config version, stub kind, transport class, scenario) that started and ran")
VERSIONS = [None, "1", "2", "2.0", "2.1", "2.2", "2.3", "2.4.1", "3", "3.0", "3.0.9", "3.1",
            "4", "4.0", "10.2"]


def parse(v):
    if v is None:
        return [1]
    return [int(x) for x in v.split(".")]


def strip0(v):
    v = list(v)
    while len(v) > 1 and v[-1] == 0:
        v.pop()
    return v


def make_case(seed: int, tier: str, prop: str, opts=None) -> Dict[str, Any]:
    rng = random.Random(h64(seed, "c15"))
    n = rng.choice([2, 2, 3])
    sims = []
    for i in range(n):
        sims.append({"sid": f"S{i}", "type": "time-based", "group": 0, "n_ent": 1, "meta_style": 0,
                     "transport": rng.choice(["gated", "gated", "stock", "remote", "cmd"]),
                     "beh": {"bseed": rng.randrange(1 << 30), "step_sizes": [rng.choice([1, 2, 3])]}})
    vi = rng.randrange(n)
    V = sims[vi]
    V["api"] = rng.choice(VERSIONS)
    V["stub"] = rng.choice(["stub", "stub", "old_init", "old_step", "old_both", "strict"])
    if rng.random() < 0.25:
        V["omit_type"] = True
    elif rng.random() < 0.2:
        V["type"] = "hybrid"
        V["beh"] = {"bseed": rng.randrange(1 << 30), "p_self": 1.0, "self_d": rng.choice([1, 2]),
                    "p_out": 0.7, "loop_len": 1}
    r = rng.random()
    if r < 0.35:
        V["cfg_api"] = V["api"] if V["api"] is not None else "1"
    elif r < 0.55:
        V["cfg_api"] = rng.choice([v for v in VERSIONS if v is not None])
    if rng.random() < 0.35:
        # a second in-process simulator whose class has the same *name* as the current-API stub
        # but old signatures (or the other way round), started before or after it
        W = {"sid": f"S{n}", "type": "time-based", "group": 0, "n_ent": 1, "meta_style": 0,
             "transport": rng.choice(["gated", "stock"]),
             "beh": {"bseed": rng.randrange(1 << 30), "step_sizes": [rng.choice([1, 2])]},
             "api": rng.choice(["2.2", "2.3", "2", None]),
             "stub": rng.choice(["old_init_alias", "old_both_alias"])}
        if rng.random() < 0.5:
            sims.append(W)
        else:
            sims.insert(0, W)
            vi += 1
        n += 1
        if rng.random() < 0.6:
            V["stub"] = "stub"
            V["transport"] = rng.choice(["gated", "stock"])
    if rng.random() < 0.3:
        # the simulator offers extra methods and the scenario script calls them after the start
        names = rng.sample(["setup", "done", "set", "calibrate"], rng.choice([1, 2, 3]))
        V["extra_methods"] = names
        V["extra_calls"] = [[nm, rng.choice([1, "x", None])] for nm in names]
    twin = None
    if V.get("cfg_api") is not None and V["transport"] in ("gated", "stock") and rng.random() < 0.5:
        # a second instance started from the *same* sim config entry (same explicit api_version),
        # announcing the same or another version
        twin = copy.deepcopy(V)
        twin["sid"] = "T"
        twin["api"] = rng.choice([V["api"], rng.choice(VERSIONS), rng.choice(VERSIONS)])
        twin["beh"] = dict(twin["beh"], bseed=rng.randrange(1 << 30))
    conns = []
    for i in range(n - 1):
        a, b = (i, i + 1) if rng.random() < 0.7 else (i + 1, i)
        ua = "p_out"
        va = "m_in" if sims[b]["type"] == "time-based" else rng.choice(["m_in", "t_in"])
        conns.append({"src": a, "se": 0, "dst": b, "de": 0, "pairs": [[ua, va]], "shift": 0, "weak": False})
    cfg = {"cache": rng.random() < 0.5, "lazy": rng.random() < 0.5, "debug": False, "mli": 100,
           "start_seed": None, "connect_seed": None, "order_seed": None, "iteration_cost": 0.0}
    if twin is not None:
        twin["cfg_entry"] = vi
        sims.append(twin)
    sc = {"groups": [None], "sims": sims, "conns": conns, "until": rng.choice([2, 3, 4, 5]),
          "config": cfg, "versioned": vi}
    case = {"scenario": sc, "schedule": gen.gen_schedule(seed, sc, rng.choice([0, 1, 2, 3]))}
    if rng.random() < 0.2:
        # the versioned simulator fails in one of its steps with an ordinary exception: what it
        # receives before and after must still be valid for its version, and its error must surface
        case["faults"] = [{"sid": V["sid"], "req": rng.choice([1, 2, 3, 4, 5]), "phase": "pre", "kind": "raise",
                           "exc": rng.choice(["ValueError", "TypeError", "KeyError", "RuntimeError", "SimFault"])}]
    return case


def expected_start(V):
    v = parse(V.get("api"))
    local = V["transport"] in ("stock", "gated")
    noncompliant = V.get("stub", "stub") in ("old_init", "old_step", "old_both", "old_init_alias", "old_both_alias")
    if V.get("omit_type") and v >= [3]:
        return "reject"
    if local and noncompliant and v >= [3]:
        return "reject"
    if v >= [4]:
        return "reject"
    if V.get("cfg_api") is not None:
        c = parse(V["cfg_api"])
        if c != v:
            if strip0(c) == strip0(v):
                return "either"
            return "reject"
    if (not local) and V.get("stub") in ("old_step", "old_both") and v >= [3]:
        return "either"       # remote non-compliant stub claiming v3: it will choke on the 3rd argument
    return "ok"


def view(hist):
    out = {}
    for r in hist:
        if r[0] == "begin" and r[1] == "step":
            out.setdefault(r[2], []).append((r[4][0], norm_inputs(r[4][1])))
    return out


def run_case(case, prop) -> Dict[str, Any]:
    sc = case["scenario"]
    sp = case["schedule"]
    out = {"runs": 0, "violations": [], "stats": {}, "fps": set(), "ntfps": set(),
           "scen": {h64(json.dumps(sc, sort_keys=True))}, "sim_time": 0.0, "steps": 0,
           "aborted": 0, "completed": 0}
    st = out["stats"]
    V = sc["sims"][sc["versioned"]]
    sid = V["sid"]
    v = parse(V.get("api"))
    exp = expected_start(V)
    st["version_" + str(V.get("api"))] = 1
    st["stubkind_" + V.get("stub", "stub")] = 1
    st["expect_" + exp] = 1
    if V.get("cfg_api") is not None:
        st["explicit_cfg_version"] = 1
    r = runner.execute(sc, sp, faults=case.get("faults"))
    out["runs"] += 1
    out["sim_time"] += r.stats["vtime"]
    hd = digest(r.hist)
    viols = []
    fault = next((h for h in r.hist if h[0] == "fault"), None)
    if fault is not None:
        st["fault_raise_in_versioned_sim"] = 1
    feats = {"api": V.get("api"), "stub": V.get("stub", "stub"),
             "transport": "local" if V["transport"] in ("stock", "gated") else "remote"}
    oc = r.outcome
    sr = next((h for h in r.hist if h[0] == "start_result" and h[1] == sid), None)
    started = sr is not None and sr[2] == "ok"
    if exp == "reject":
        if started:
            viols.append({"kind": "start_accepted_but_must_reject", "features": feats,
                          "detail": {"sim": V, "outcome": list(oc)[:3]}})
        elif sr is not None and sr[2] != "ScenarioError":
            viols.append({"kind": "start_rejected_with_other_error", "features": dict(feats, exc=sr[2]),
                          "detail": {"sim": V, "start_result": sr}})
    elif exp == "ok" and not started:
        viols.append({"kind": "start_rejected_but_valid", "features": feats,
                      "detail": {"sim": V, "start_result": sr, "outcome": list(oc)}})
    # every other simulator of the scenario is a valid one and must start as well
    for s_ in sc["sims"]:
        if s_ is V:
            continue
        e2 = expected_start(s_) if s_.get("stub") else "ok"
        sr2 = next((h for h in r.hist if h[0] == "start_result" and h[1] == s_["sid"]), None)
        if e2 == "ok" and sr2 is not None and sr2[2] != "ok":
            viols.append({"kind": "other_simulator_rejected", "features": {"stub": s_.get("stub", "stub")},
                          "detail": {"sim": s_, "start_result": sr2}})
        if s_.get("cfg_entry") is not None:
            st["second_start_from_same_config_entry"] = 1
            if e2 == "reject" and sr2 is not None and sr2[2] == "ok":
                viols.append({"kind": "start_accepted_but_must_reject",
                              "features": {"api": s_.get("api"), "stub": s_.get("stub", "stub"),
                                           "transport": "local", "second_start_of_entry": True},
                              "detail": {"sim": s_, "first": V}})
            elif e2 == "reject" and sr2 is not None and sr2[2] != "ScenarioError":
                viols.append({"kind": "start_rejected_with_other_error",
                              "features": {"api": s_.get("api"), "exc": sr2[2], "second_start_of_entry": True},
                              "detail": {"sim": s_, "start_result": sr2}})
    if started and exp in ("ok",):
        # ---- requests seen by the stub
        for h in r.hist:
            if h[0] == "begin" and h[2] == sid:
                if h[1] == "setup_done" and v < [2, 2]:
                    viols.append({"kind": "setup_done_sent_to_old_api", "features": feats, "detail": {"sim": V}})
                    break
                if h[1] == "step":
                    ma = h[4][2]
                    if v < [3] and ma not in (None, "<absent>"):
                        viols.append({"kind": "max_advance_sent_to_old_api", "features": feats,
                                      "detail": {"sim": V, "max_advance": ma}})
                        break
                    if v >= [3] and not isinstance(ma, int):
                        viols.append({"kind": "max_advance_missing_for_v3", "features": feats,
                                      "detail": {"sim": V, "max_advance": ma}})
                        break
            if h[0] == "raw" and h[1] == sid:
                if h[2] == "step" and v < [3] and h[3] > 2:
                    viols.append({"kind": "max_advance_sent_to_old_api", "features": feats,
                                  "detail": {"sim": V, "raw": h}})
                    break
        # ---- extra methods reach the simulator whatever its version, and their results come back
        for nm, arg in V.get("extra_calls", ()):
            st["extra_method_calls"] = st.get("extra_method_calls", 0) + 1
            got_call = any(h[0] == "extra" and h[1] == sid and h[2] == nm for h in r.hist)
            res = next((h[4] for h in r.hist if h[0] == "extra_result" and h[1] == sid and h[2] == nm), "<none>")
            if not got_call or res != f"{sid}.{nm}({arg})":
                viols.append({"kind": "extra_method_call_lost", "features": dict(feats, method=nm),
                              "detail": {"sim": V, "received": got_call, "result": res}})
                break
        if v >= [2, 2] and not any(h[0] == "begin" and h[1] == "setup_done" and h[2] == sid for h in r.hist) \
                and oc[0] == "ok":
            viols.append({"kind": "setup_done_missing", "features": feats, "detail": {"sim": V}})
        if fault is not None:
            f0 = case["faults"][0]
            local = V["transport"] in ("stock", "gated")
            # every step must have been requested at most once per (time, ordinal) ...
            seen_steps = [(h[4][0], h[5]) for h in r.hist if h[0] == "begin" and h[1] == "step" and h[2] == sid]
            times = [t for t, _ in seen_steps]
            if any(times[i] == times[i + 1] for i in range(len(times) - 1)) and V["type"] == "time-based":
                viols.append({"kind": "step_requested_twice_after_error", "features": dict(feats, exc=f0["exc"]),
                              "detail": {"sim": V, "steps": seen_steps[:8]}})
            # ... and the simulator's own error must be what the user gets
            if local and not (oc[0] == "exception" and (oc[1] == f0["exc"] or (f0["exc"] == "SimFault" and oc[1] == "SimFault"))):
                viols.append({"kind": "simulator_error_replaced", "features": dict(feats, exc=f0["exc"], got=oc[1] if len(oc) > 1 else oc[0]),
                              "detail": {"sim": V, "outcome": list(oc)}})
            out["aborted"] += 1
        elif oc[0] == "start_error" and oc[1] != sid and \
                any(s_["sid"] == oc[1] and s_.get("cfg_entry") is not None and expected_start(s_) != "ok"
                    for s_ in sc["sims"]):
            st["second_start_rejected_as_expected"] = 1      # no run then
        elif oc[0] != "ok":
            viols.append({"kind": "run_failed_with_old_api", "features": dict(feats, outcome=oc[0]),
                          "detail": {"sim": V, "outcome": list(oc), "tb": (r.tb or "")[-600:]}})
            out["aborted"] += 1
        else:
            out["completed"] += 1
            # ---- differential: same scenario declared as current version
            sc2 = copy.deepcopy(sc)
            V2 = sc2["sims"][sc["versioned"]]
            V2["api"] = "3.0"
            V2["stub"] = "stub"
            V2.pop("cfg_api", None)
            V2.pop("omit_type", None)
            r2 = runner.execute(sc2, sp)
            out["runs"] += 1
            if r2.outcome[0] == "ok" and view(r2.hist) != view(r.hist):
                a, b = view(r.hist), view(r2.hist)
                bad = next(s for s in sorted(set(a) | set(b)) if a.get(s) != b.get(s))
                viols.append({"kind": "differs_from_current_version", "features": feats,
                              "detail": {"sim": V, "sid": bad, "old": a.get(bad, [])[:4], "v3": b.get(bad, [])[:4]}})
            out["ntfps"].add(h64(V.get("api"), V.get("cfg_api"), V.get("stub"), feats["transport"],
                                 next(iter(out["scen"]))))
    out["fps"].add(pcore.fingerprint(r.hist))
    for x in viols:
        x["digest"] = hd
        x["case"] = case
    out["violations"] = viols
    out["sample"] = {"versioned_sim": V, "expected_start": exp, "started": started, "outcome": list(oc)[:2]}
    out["digest"] = hd
    return out


def shrink_candidates(case, prop):
    sc = case["scenario"]
    if case["schedule"].get("profile") != "sync":
        yield {"scenario": sc, "schedule": {"profile": "sync", "seed": 0}}
    vi = sc["versioned"]
    for i in reversed(range(len(sc["sims"]))):
        if i == vi or len(sc["sims"]) <= 1:
            continue
        sc2 = copy.deepcopy(sc)
        del sc2["sims"][i]
        sc2["conns"] = [dict(c, src=c["src"] - (c["src"] > i), dst=c["dst"] - (c["dst"] > i))
                        for c in sc2["conns"] if i not in (c["src"], c["dst"])]
        sc2["versioned"] = vi - (vi > i)
        for s_ in sc2["sims"]:
            if s_.get("cfg_entry") is not None:
                s_["cfg_entry"] -= (s_["cfg_entry"] > i)
        yield {"scenario": sc2, "schedule": case["schedule"]}
    if sc["until"] > 1:
        sc2 = copy.deepcopy(sc)
        sc2["until"] = 1
        yield {"scenario": sc2, "schedule": case["schedule"]}
    V = sc["sims"][vi]
    for k in ("cfg_api", "omit_type"):
        if V.get(k) is not None:
            sc2 = copy.deepcopy(sc)
            sc2["sims"][vi].pop(k)
            yield {"scenario": sc2, "schedule": case["schedule"]}
    if V["transport"] != "gated":
        sc2 = copy.deepcopy(sc)
        sc2["sims"][vi]["transport"] = "gated" if V["transport"] == "stock" else "remote"
        if sc2["sims"][vi]["transport"] != V["transport"]:
            yield {"scenario": sc2, "schedule": case["schedule"]}
