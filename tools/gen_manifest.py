#!/venv/bin/python
"""Regenerate MANIFEST.json from the table below (keeps it valid and uniform)."""
import json, os, subprocess
ROOT = os.path.dirname(os.path.dirname(os.path.abspath(__file__)))
BASE = ("cd /repo && /venv/bin/python -m pytest -ra -q -p no:cacheprovider --timeout=900 "
        "--continue-on-collection-errors")
TRUST = ("Trusted base: the DetLoop (virtual-time asyncio loop, FIFO ready queue preserved), the stub "
         "simulators, the in-memory transport under the real asyncio streams / mosaik_api_v3 Channel, "
         "and the independent reference model RM (dsim/refmodel.py). Bounds: <=5 simulators (6 in "
         "thorough, 9 in C06's dense graphs), group depth <=3, until <=10 (quick) / <=20 (thorough). Sampling, not enumeration: a clean batch is evidence, not proof.")
CHECKS = {
 "C01": ("exploration", "core", "seeded search over scenarios x latency schedules; online oracle with RM arrival times: no feeder step with arr<=tau open or begun later than a consumer step at tau; families: random topologies, diamond / two-path / deep-tail topologies, async agents, a failing simulator, and a real-time family in which accepted external events are demands", "6.C01",
         "deterministic simulation: seeded schedule search + RM history oracle"),
 "C02": ("exploration", "core", "seeded search; executed step set of every simulator equals RM's demand set (initial, self, trigger causes), strictly increasing, inside [0,until)", "6.C02",
         "deterministic simulation: seeded schedule search + RM demand-set oracle"),
 "C03": ("exploration", "core", "seeded search; the inputs argument of every step equals RM's due data connection by connection (unique values make every input attributable)", "6.C03",
         "deterministic simulation: seeded schedule search + RM due-data oracle"),
 "C05": ("exploration", "core", "seeded search; run() must return: DetLoop detects deadlock (idle loop, unfinished run), livelock (callback cap) and any internal exception", "6.C05",
         "deterministic simulation: seeded schedule search + deadlock/livelock detection"),
 "C07": ("exploration", "core", "seeded search; every step inside (t, max_advance] must have a cause traceable to the simulator's own output/self-schedule at or after t (provenance over RM's cause records); m <= until, and m == until without trigger inputs; also in real-time mode (simulators for which set_event steps may be booked are excepted from the 'equals until' clause, steps caused by external events from the provenance clause)", "6.C07",
         "deterministic simulation: seeded schedule search + provenance oracle"),
 "C10": ("exploration", "core", "seeded search with lazy_stepping=True; no producer step at main time t begins while a consumer step with main time < t is open or still to come", "6.C10",
         "deterministic simulation: seeded schedule search + ordering oracle"),
}
NA = {
 "C08": "pure function of its operands (tier arithmetic): no schedule, clock, fault or peer in it; deciding it is input enumeration, not simulation (DESIGN 6.C08)",
 "C12": "pure function of the model description and simulator type: no schedule, time, fault or interaction can change its verdict (DESIGN 6.C12)",
}
PENDING = {}
ALL = [f"C{i:02d}" for i in range(1, 19)]

def main():
    extra = {}
    p = os.path.join(ROOT, "tools", "manifest_extra.json")
    if os.path.exists(p):
        extra = json.load(open(p))
    checks_tab = dict(CHECKS); checks_tab.update({k: tuple(v) for k, v in extra.get("checks", {}).items()})
    checks = []
    for pid in ALL:
        if pid not in checks_tab:
            continue
        level, eng, text, ref, tech = checks_tab[pid]
        checks.append({
            "property_id": pid,
            "quick_cmd": f"./check {pid} --tier quick",
            "thorough_cmd": f"./check {pid} --tier thorough",
            "evidence_file": f"/verif/evidence/{pid}.json",
            "replay_cmd_template": f"./check {pid} --replay {{path}}",
            "engine": eng,
            "level_claimed": {"category": level, "text": text, "design_ref": ref},
            "level_note": TRUST,
            "technique": tech,
        })
    na = [{"property_id": k, "reason": v} for k, v in NA.items()]
    for pid in ALL:
        if pid not in checks_tab and pid not in NA:
            na.append({"property_id": pid, "reason": "check not built yet in this session (work in progress; see DESIGN.md section 6 for the plan)"})
    hooks_commits = extra.get("hook_commits", [])
    m = {
        "version": 1,
        "setup_cmd": "cd /verif && /venv/bin/python -m compileall -q dsim > /dev/null && ./check --help > /dev/null && /venv/bin/python tools/smoke.py",
        "hooks": {"guard": "MOSAIK_VERIF", "enable": "no source hooks: every seam is an existing extension point or a module global rebound inside the check process (DESIGN 2.3); /repo is executed as is (editable install)",
                  "baseline_off_cmd": BASE, "source_commits": hooks_commits, "add_only": True},
        "engines": [
            {"name": "core", "path": "dsim/props/core.py", "serves_properties": [p for p in ALL if checks_tab.get(p, (0, ""))[1] == "core"],
             "kind_free_text": "deterministic simulation: virtual-time asyncio loop + keyed latency schedules + stub simulators over stock/gated/remote transports; history oracles against an independent reference model"},
        ] + extra.get("engines", []),
        "checks": checks,
        "not_applicable": sorted(na, key=lambda x: x["property_id"]),
        "notes": "All checks: ./check <id> [--tier quick|thorough] [--replay file]; honours VERIF_SEED and VERIF_TIER; exit 0 held / 1 VIOLATION / 2 harness error. Known findings: known_findings.json (never written at run time).",
    }
    with open(os.path.join(ROOT, "MANIFEST.json"), "w") as f:
        json.dump(m, f, indent=1)
    print("wrote MANIFEST.json with", len(checks), "checks,", len(na), "not applicable")

if __name__ == "__main__":
    main()
