"""Stub simulators (DESIGN 2.2, 4.2).

Behaviour is a pure function of (behaviour seed, sid, time, ordinal of the step at that
time [, digest of inputs]); every produced value is unique, so each delivered input is
attributable to exactly one production.
"""
from __future__ import annotations

import hashlib
import json

import mosaik_api_v3

from . import ctx
from .loop import h01, h64


class SimFault(Exception):
    """Raised by a stub on purpose (fault kind 'raise')."""


def attrs_for(typ):
    if typ == "time-based":
        return ["m_in", "p_out"]
    if typ == "event-based":
        return ["t_in", "e_out"]
    return ["m_in", "t_in", "p_out", "e_out"]


def model_desc(typ, style, any_inputs=False):
    attrs = attrs_for(typ)
    m = {"public": True, "params": [], "attrs": list(attrs)}
    if any_inputs:
        m["any_inputs"] = True
    if typ == "time-based":
        if style == 1:
            m["non-trigger"] = list(attrs)
            m["persistent"] = list(attrs)
    elif typ == "event-based":
        if style == 1:
            m["trigger"] = list(attrs)
            m["non-persistent"] = list(attrs)
    else:
        if style == 0:
            m["trigger"] = ["t_in"]
            m["non-persistent"] = ["e_out"]
        elif style == 1:
            m["non-trigger"] = ["m_in", "p_out", "e_out"]
            m["non-persistent"] = ["e_out"]
        elif style == 3:
            # neither 'trigger' nor 'non-trigger': no input of a hybrid model triggers by default
            m["non-persistent"] = ["e_out"]
        else:
            m["trigger"] = ["t_in"]
            m["non-trigger"] = ["m_in", "p_out", "e_out"]
            m["persistent"] = ["m_in", "t_in", "p_out"]
            m["non-persistent"] = ["e_out"]
    return m


EVENT_ATTRS = ("e_out", "ce_out")


def child_desc(typ, style):
    """Model of the child entities ("Sub").  Its outputs have other names than the parent's
    (prefix c); its inputs are the parent's plus prefixed ones - and for hybrid simulators the
    shared input names are classified the other way round (m_in triggers, t_in does not), so that
    an entity judged by the wrong model is accepted by connect() but scheduled wrongly."""
    if typ == "time-based":
        return {"public": False, "params": [], "attrs": ["m_in", "cm_in", "cp_out"]}
    if typ == "event-based":
        return {"public": False, "params": [], "attrs": ["t_in", "ct_in", "ce_out"]}
    return {"public": False, "params": [], "attrs": ["m_in", "t_in", "cm_in", "ct_in", "cp_out", "ce_out"],
            "trigger": ["m_in", "ct_in"], "non-persistent": ["ce_out"]}


def digest_inputs(inputs) -> str:
    return hashlib.blake2b(json.dumps(inputs, sort_keys=True, default=repr).encode(),
                           digest_size=6).hexdigest()


class StubSim(mosaik_api_v3.Simulator):
    def __init__(self):
        super().__init__({})
        self.run = ctx.cur()
        self.spec = None
        self.sid = None
        self.count = {}
        self.time = None
        self.k = 0
        self.n_req = 0
        self.idig = ""
        self.finalized = 0
        self.stopped = False

    # ------------------------------------------------------------------ API
    def init(self, sid, time_resolution=1.0, spec=None, **kw):
        self.sid = sid
        self.spec = spec
        self.time_resolution = time_resolution
        self.run.stubs[sid] = self
        self.run.rec("init", sid, {"time_resolution": time_resolution})
        t = spec["type"]
        meta = {"models": {"M": model_desc(t, spec.get("meta_style", 0),
                                           spec.get("any_inputs", False))}}
        if spec.get("child"):
            meta["models"]["Sub"] = child_desc(t, spec.get("meta_style", 0))
        if spec.get("omit_type"):
            pass
        else:
            meta["type"] = t
        api = spec.get("api", "3.0")
        if api is not None:
            meta["api_version"] = api
        if spec.get("set_events"):
            meta["set_events"] = True
        if spec.get("extra_methods"):
            meta["extra_methods"] = list(spec["extra_methods"])
        self.meta = meta
        return self.meta

    # extra methods (offered through meta['extra_methods'], called from the scenario script)
    def _extra(self, name, arg):
        self.run.rec("extra", self.sid, name, arg)
        return f"{self.sid}.{name}({arg})"

    def setup(self, arg=None):
        return self._extra("setup", arg)

    def done(self, arg=None):
        return self._extra("done", arg)

    def set(self, arg=None):
        return self._extra("set", arg)

    def calibrate(self, arg=None):
        return self._extra("calibrate", arg)

    def create(self, num, model, **params):
        n0 = getattr(self, "_n_created", 0)
        self._n_created = n0 + num
        if (self.spec or {}).get("child"):
            # every entity has one child of another model ("Sub") - and, for every other simulator, an
            # elder sibling of that child that has the parent's own model (a list of children of mixed
            # models: each child is to be judged by its own)
            mixed = h64((self.spec.get("beh") or {}).get("bseed", 0), "mixed_children") % 2 == 0
            return [{"eid": f"e{n0 + i}", "type": model,
                     "children": ([{"eid": f"e{n0 + i}m", "type": model, "rel": []}] if mixed else []) +
                     [{"eid": f"e{n0 + i}c", "type": "Sub", "rel": []}]} for i in range(num)]
        return [{"eid": f"e{n0 + i}", "type": model} for i in range(num)]

    def setup_done(self):
        self._pre("setup_done", ())
        self._post("setup_done", None)
        return None

    def step(self, time, inputs, max_advance=None):
        self._pre("step", (time, ctx.dc(inputs), max_advance))
        ret = self._step_impl(time, inputs)
        ret = self._mangle("step", ret)
        self._post("step", ret)
        return ret

    def get_data(self, outputs):
        self._pre("get_data", (ctx.dc(outputs),))
        data = self._get_data_impl(outputs)
        if any(f.get("kind") == "bad_reply" and f.get("sid") == self.sid and
               f.get("value", {}).get("what") == "stale_time_reused_dict" for f in self.run.faults):
            # this simulator fills one and the same dict object for every reply and states the
            # output time explicitly (legal); at the fault it forgets to refresh 'time'
            rd = self.__dict__.setdefault("_rd", {})
            for k_ in [k_ for k_ in rd if k_ != "time"]:
                del rd[k_]
            rd.update({k_: v_ for k_, v_ in data.items() if k_ != "time"})
            f_ = self._fault("get_data", self.cur_req, "reply")
            if f_ is not None and f_["value"]["what"] == "stale_time_reused_dict" and \
                    isinstance(self.__dict__.get("_rd_time"), int) and self._rd_time < self.time:
                # (malformed only if the forgotten value is earlier than this step)
                others = sum(1 for s_, x_ in self.run.in_flight.items() if x_ > 0 and s_ != self.sid)
                self.run.rec("fault", "bad_reply", self.sid, "get_data", self.cur_req, others, f_["value"])
                self.run.fault_state["fired"] = self.run.fault_state.get("fired", 0) + 1
                self._post("get_data", ctx.dc(rd))
            else:
                rd["time"] = data.get("time", self.time)
                self._rd_time = rd["time"]               # (what this simulator last wrote itself)
                self._post("get_data", ctx.dc(data))     # (recorded like the fault-free reply)
            return rd
        if (self.spec or {}).get("beh", {}).get("reuse_reply") and getattr(self, "_node", None) is None:
            # an in-process simulator that keeps one reply dict (and one dict per entity) and re-fills
            # it for every call - legal: what it returns is correct at the moment it returns it
            keep = self.__dict__.setdefault("_keep", {})
            for k_ in list(keep):
                if k_ not in data:
                    del keep[k_]
            for k_, v_ in data.items():
                if isinstance(v_, dict):
                    sub = keep.get(k_)
                    if not isinstance(sub, dict):
                        sub = keep[k_] = {}
                    sub.clear()
                    sub.update(v_)
                else:
                    keep[k_] = v_
            self._post("get_data", ctx.dc(keep))
            return keep
        data = self._mangle("get_data", data)
        self._post("get_data", ctx.dc(data))
        return data

    def finalize(self):
        self.finalized += 1
        self.run.rec("finalize", self.sid)

    def event_setter(self):
        """Remote only (called by mosaik_api_v3.run_simulator): set external events at
        instants and for times planned in the spec."""
        import asyncio
        run = self.run
        plan = (self.spec or {}).get("events") or []
        last = 0.0
        for ev in plan:
            yield asyncio.sleep(max(0.0, ev["at"] - last))
            last = ev["at"]
            if run.world is None or getattr(run, "finished", False):
                return
            t = ev.get("t")
            if ev.get("kind") == "future":
                # a time that is still in the future when the request reaches mosaik: the time
                # step current now (measured generously from the call of run()) plus a margin
                # covering the request's latency
                rt = self.spec["rt"]
                t0 = next((v for h, v in zip(run.hist.rec, run.hist.vt) if h[0] == "run_called"), 0.0)
                import math
                now_t = math.ceil((run.loop.time() - t0) / rt["period"] - 1e-12)
                t = now_t + rt["margin"] + ev.get("dt", 0)
            q = run.rec("async_call", self.sid, "set_event", t, None)
            try:
                yield self.mosaik.set_event(t)
                run.rec("async_done", self.sid, "set_event", q, None)
            except Exception as e:  # noqa: BLE001
                run.rec("async_err", self.sid, "set_event", q, type(e).__name__,
                        getattr(e, "remote_type", None), str(e)[:200])

    # -------------------------------------------------------------- behaviour
    def _step_impl(self, time, inputs):
        beh = self.spec["beh"]
        k = self.count.get(time, 0)
        self.count[time] = k + 1
        blk = beh.get("block")
        if blk and getattr(self, "_node", None) is None:
            # an in-process simulator that computes for a while *without* yielding to the event
            # loop: the (virtual) wall clock advances while everything else stands still
            d = blk[h64(beh["bseed"], self.sid, time, k, "blk") % len(blk)]
            if d:
                self.run.loop._vtime += d
                self.run.probe("blocking_step")
        self.time = time
        self.k = k
        self.idig = digest_inputs(inputs) if beh.get("react") else ""
        b = (beh["bseed"], self.sid, time, k, self.idig)
        typ = self.spec["type"]
        if typ == "time-based":
            sizes = beh.get("step_sizes") or [1]
            if beh.get("vary"):
                return time + sizes[h64(b, "ss") % len(sizes)]
            return time + sizes[0]
        if h01(b, "ns") < beh.get("p_self", 0.0):
            return time + 1 + h64(b, "nd") % max(1, beh.get("self_d", 3))
        return None

    def _get_data_impl(self, outputs):
        beh = self.spec["beh"]
        time, k = self.time, self.k
        b = (beh["bseed"], self.sid, time, k, self.idig)
        data = {}
        any_p = False
        for eid, attrs in outputs.items():
            for a in attrs:
                typ = self.spec["type"]
                if typ == "time-based" or (typ == "hybrid" and a not in EVENT_ATTRS):
                    # persistent attribute: always present
                    data.setdefault(eid, {})[a] = f"{self.sid}.{eid}.{a}@{time}#{k}{self.idig}"
                    any_p = True
                else:
                    ll = beh.get("loop_len", 1)
                    if beh.get("final_e1") and eid == "e1" and ll is not None:
                        # the "settled" signal: produced once per time step, in the step after
                        # the last loop output
                        if k == ll:
                            data.setdefault(eid, {})[a] = f"{self.sid}.{eid}.{a}@{time}#{k}{self.idig}"
                        continue
                    if (ll is None or k < ll) and h01(b, "eo", eid, a) < beh.get("p_out", 1.0):
                        data.setdefault(eid, {})[a] = f"{self.sid}.{eid}.{a}@{time}#{k}{self.idig}"
                        if beh.get("p_none") and h01(b, "none", eid, a) < beh["p_none"]:
                            data[eid][a] = None      # a pure event: present, without payload
        if beh.get("pers_offset") and data:
            data["time"] = time + beh["pers_offset"]
            return data
        if beh.get("future") and (not any_p or beh.get("future_pers")) and data:
            if h01(b, "fut") < beh.get("p_future", 0.3):
                data["time"] = time + 1 + h64(b, "fd") % 3
        if beh.get("explicit_time") and "time" not in data and self.spec["type"] != "time-based":
            if h01(b, "xt") < 0.5:
                data["time"] = time
        return data

    # ------------------------------------------------------------ bookkeeping
    def _pre(self, func, args):
        run = self.run
        n = self.n_req
        self.n_req += 1
        self.cur_req = n
        run.rec("begin", func, self.sid, run.tau_of(self.sid), args, n)
        run.in_flight[self.sid] = run.in_flight.get(self.sid, 0) + 1
        if sum(1 for v in run.in_flight.values() if v > 0) >= 2:
            run.probe("two_in_flight")
        f = self._fault(func, n, "pre")
        if f is not None:
            self._fire(f, func, n)

    def _post(self, func, ret):
        run = self.run
        run.in_flight[self.sid] = run.in_flight.get(self.sid, 1) - 1
        run.rec("end", func, self.sid, ret, self.cur_req)

    def _fault(self, func, n, phase):
        for f in self.run.faults:
            if f.get("sid") == self.sid and f.get("req") == n and f.get("phase", "pre") == phase:
                return f
        return None

    def _fire(self, f, func, n):
        run = self.run
        kind = f["kind"]
        if kind == "raise":
            others = sum(1 for s, v in run.in_flight_mosaik.items() if v > 0 and s != self.sid)
            run.rec("fault", kind, self.sid, func, n, others)
            run.fault_state["fired"] = run.fault_state.get("fired", 0) + 1
            run.in_flight[self.sid] = run.in_flight.get(self.sid, 1) - 1
            exc_cls = {"ValueError": ValueError, "TypeError": TypeError, "KeyError": KeyError,
                       "RuntimeError": RuntimeError, "StopIteration": StopIteration}.get(f.get("exc"), SimFault)
            raise exc_cls(f"injected failure in {self.sid}.{func} (request {n})")
        others = sum(1 for s, v in run.in_flight_mosaik.items() if v > 0 and s != self.sid)
        node = getattr(self, "_node", None)
        if node is None:
            return
        if kind == "kill_in_handler":
            run.rec("fault", kind, self.sid, func, n, others)
            run.fault_state["fired"] = run.fault_state.get("fired", 0) + 1
            node.kill()
        elif kind == "reset_in_handler":
            run.rec("fault", kind, self.sid, func, n, others)
            run.fault_state["fired"] = run.fault_state.get("fired", 0) + 1
            node.kill(reset=True)
        elif kind == "kill_after_reply":
            run.fault_state.setdefault("on_node_write", {})[self.sid] = "kill"
        elif kind == "torn_reply":
            run.fault_state.setdefault("on_node_write", {})[self.sid] = "torn"
        elif kind == "reset_after_reply":
            run.fault_state.setdefault("on_node_write", {})[self.sid] = "reset"

    def _mangle(self, func, ret):
        f = self._fault(func, self.cur_req, "reply")
        if f is None or f.get("func") not in (None, func):
            return ret
        run = self.run
        kind = f["kind"]
        if kind != "bad_reply":
            return ret
        v = f["value"]
        others = sum(1 for s, x in run.in_flight.items() if x > 0 and s != self.sid)
        run.rec("fault", "bad_reply", self.sid, func, self.cur_req, others, v)
        run.fault_state["fired"] = run.fault_state.get("fired", 0) + 1
        if func == "step":
            what = v["what"]
            if what == "float":
                return float(self.time + 1) + 0.5
            if what == "float_integral":
                return float(self.time + 1 + v.get("d", 0))
            if what == "str":
                return str(self.time + 1)
            if what == "list":
                return [self.time + 1]
            if what == "same":
                return self.time
            if what == "earlier":
                return self.time - 1 - v.get("d", 0)
            if what == "negative":
                return -1 - v.get("d", 0)
            if what == "none":
                return None
            if what == "bool":
                return True
        else:
            what = v["what"]
            d = dict(ret)
            if what == "past_time":
                d["time"] = self.time - 1 - v.get("d", 0)
            elif what == "far_past":
                d["time"] = -5
            return d
        return ret


class AsyncStubSim(StubSim):
    """Generator-style step issuing set_data / get_data / get_progress /
    get_related_entities / set_event (C16, C17)."""

    def step(self, time, inputs, max_advance=None):
        self._pre("step", (time, ctx.dc(inputs), max_advance))
        ret = self._step_impl(time, inputs)
        beh = self.spec["beh"]
        run = self.run
        b = (beh["bseed"], self.sid, time, self.k)
        for j, call in enumerate(beh.get("async_calls", ())):
            if h01(b, "ac", j) >= call.get("p", 1.0):
                continue
            if time < call.get("from_time", 0):
                continue
            kind = call["kind"]
            if kind == "set_data":
                val = f"{self.sid}:sd{j}@{time}#{self.k}"
                payload = {f"{self.sid}.{call['src_eid']}": {call["dst"]: {call["attr"]: val}}}
                if call.get("also_src_eid"):
                    # several entities of this simulator write the same attribute in one call
                    payload[f"{self.sid}.{call['also_src_eid']}"] = {
                        call["dst"]: {call["attr"]: f"{self.sid}:sd{j}b@{time}#{self.k}"}}
                q = run.rec("async_call", self.sid, "set_data", payload, time)
                try:
                    yield self.mosaik.set_data(payload)
                    run.rec("async_done", self.sid, "set_data", q, None)
                except Exception as e:   # refused
                    run.rec("async_err", self.sid, "set_data", q, type(e).__name__,
                            getattr(e, "remote_type", None), str(e)[:200])
                    if call.get("reraise", True):
                        self._post("step", None)
                        raise
            elif kind == "get_data":
                req = {call["dst"]: list(call["attrs"])}
                q = run.rec("async_call", self.sid, "get_data", req, time)
                try:
                    res = yield self.mosaik.get_data(req)
                    run.rec("async_done", self.sid, "get_data", q, ctx.dc(res))
                except Exception as e:
                    run.rec("async_err", self.sid, "get_data", q, type(e).__name__,
                            getattr(e, "remote_type", None), str(e)[:200])
                    if call.get("reraise", True):
                        self._post("step", None)
                        raise
            elif kind == "get_progress":
                q = run.rec("async_call", self.sid, "get_progress", None, time)
                res = yield self.mosaik.get_progress()
                run.rec("async_done", self.sid, "get_progress", q, res)
            elif kind == "get_related_entities":
                q = run.rec("async_call", self.sid, "get_related_entities", None, time)
                res = yield self.mosaik.get_related_entities()
                run.rec("async_done", self.sid, "get_related_entities", q, None)
            elif kind == "set_event":
                q = run.rec("async_call", self.sid, "set_event", call["t"] + time, time)
                try:
                    yield self.mosaik.set_event(call["t"] + time)
                    run.rec("async_done", self.sid, "set_event", q, None)
                except Exception as e:
                    run.rec("async_err", self.sid, "set_event", q, type(e).__name__,
                            getattr(e, "remote_type", None), str(e)[:200])
                    if call.get("reraise", True):
                        self._post("step", None)
                        raise
        ret = self._mangle("step", ret)
        self._post("step", ret)
        return ret


# ---- old-API variants (C15) -------------------------------------------------------
class OldInitStub(StubSim):
    """init without time_resolution, step with max_advance (not v3-compliant)."""

    def init(self, sid, spec=None):          # noqa: D401
        return StubSim.init(self, sid, 1.0, spec)


class OldStepStub(StubSim):
    """init with time_resolution, step(time, inputs) only."""

    def step(self, time, inputs):
        return StubSim.step(self, time, inputs, "<absent>")


class OldBothStub(StubSim):
    def init(self, sid, spec=None):
        return StubSim.init(self, sid, 1.0, spec)

    def step(self, time, inputs):
        return StubSim.step(self, time, inputs, "<absent>")


class StrictV2Stub(StubSim):
    """Records every call with its raw positional/keyword arguments (used remotely,
    where run_simulator would otherwise hide an unexpected argument behind a
    TypeError)."""

    def step(self, *args, **kwargs):
        self.run.rec("raw", self.sid, "step", len(args), sorted(kwargs))
        time, inputs = args[0], args[1]
        return StubSim.step(self, time, inputs, args[2] if len(args) > 2 else "<absent>")

    def init(self, sid, **kwargs):
        self.run.rec("raw", sid, "init", 1, sorted(kwargs))
        return StubSim.init(self, sid, kwargs.get("time_resolution", 1.0), kwargs.get("spec"))


def _late_aliases():
    from . import stubs_alias
    STUB_CLASSES["old_init_alias"] = stubs_alias.StubSim
    STUB_CLASSES["old_both_alias"] = stubs_alias.OldBothAlias


STUB_CLASSES = {
    "stub": StubSim,
    "async": AsyncStubSim,
    "old_init": OldInitStub,
    "old_step": OldStepStub,
    "old_both": OldBothStub,
    "strict": StrictV2Stub,
}
_late_aliases()
