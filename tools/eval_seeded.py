#!/venv/bin/python
"""Confirm a seeded change produced by an independent sub-agent and run the checks against it.

usage: tools/eval_seeded.py <worktree> <A|B> <target property> [--budget S] [--all]
  1. in the sub-agent's scratch worktree: apply patch, run the unedited test suite (must pass),
     run the demo (must fail), revert, run the demo (must pass);
  2. apply the patch to /repo, run the checks (target property first), undo it straight away;
  3. store patch.diff, demo, notes and meta.json under /verif/seeded/<id>/.
"""
import json, os, shutil, subprocess, sys, time
ROOT = os.path.dirname(os.path.dirname(os.path.abspath(__file__)))
wt, which, target = sys.argv[1], sys.argv[2], sys.argv[3]
budget = "15"
if "--budget" in sys.argv:
    budget = sys.argv[sys.argv.index("--budget") + 1]
ALL = ["C01", "C02", "C03", "C04", "C05", "C06", "C07", "C09", "C10", "C11", "C13", "C14", "C15", "C16", "C17", "C18"]
src = os.path.join(wt, "SEEDED", which)
suffix = sys.argv[sys.argv.index("--suffix") + 1] if "--suffix" in sys.argv else ""
sid = f"{target}-{which}{suffix}"
patch = os.path.join(src, "patch.diff")
demo = next((os.path.join(src, f) for f in sorted(os.listdir(src)) if f.startswith("demo") and f.endswith(".py")), None)
env = dict(os.environ, PYTHONPATH=wt)
meta = {"id": sid, "breaks_property": target, "source": "independent sub-agent, worktree " + wt, "ran": {}}

def sh(cmd, **kw):
    return subprocess.run(cmd, shell=True, capture_output=True, text=True, **kw)

assert sh(f"git -C {wt} status --short mosaik").stdout.strip() == "", "worktree not clean"
r = sh(f"git -C {wt} apply --check {patch}")
assert r.returncode == 0, "patch does not apply: " + r.stderr
# 1. confirmation in the scratch worktree
sh(f"git -C {wt} apply {patch}")
try:
    t = sh(f"cd {wt} && timeout 900 /venv/bin/python -m pytest -q -p no:cacheprovider --timeout=900 2>&1 | tail -2", env=env)
    meta["ran"]["tests_with_change"] = t.stdout.strip().splitlines()[-1] if t.stdout.strip() else t.stderr[-200:]
    d1 = sh(f"cd {wt} && timeout 90 /venv/bin/python {demo}", env=env)
    meta["ran"]["demo_with_change_exit"] = d1.returncode
    meta["ran"]["demo_with_change_tail"] = (d1.stdout + d1.stderr)[-400:]
finally:
    sh(f"git -C {wt} checkout -- mosaik")
d0 = sh(f"cd {wt} && timeout 90 /venv/bin/python {demo}", env=env)
meta["ran"]["demo_without_change_exit"] = d0.returncode
ok = ("233 passed" in meta["ran"]["tests_with_change"]) and d1.returncode != 0 and d0.returncode == 0
meta["confirmed"] = ok
print(sid, "confirmed" if ok else "NOT CONFIRMED", meta["ran"]["tests_with_change"], "demo with/without:", d1.returncode, d0.returncode, flush=True)
# 2. run the checks against it
results = {}
prev = os.path.join(ROOT, "seeded", sid, "meta.json")
if os.path.exists(prev):
    results = json.load(open(prev)).get("checks", {})
if ok and "--skip-target" not in sys.argv:
    # 2a. the target property's check against /repo itself with the change applied, undone at once
    assert sh("git -C /repo status --short").stdout.strip() == "", "/repo not clean"
    ap = sh(f"git -C /repo apply {patch}")
    assert ap.returncode == 0, "patch does not apply to /repo HEAD: " + ap.stderr[:300]
    try:
        t0 = time.time()
        c = sh(f"cd {ROOT} && ./check {target} --seconds {max(int(budget), 30)} --no-evidence")
        lines = [l for l in c.stdout.splitlines() if l.startswith(("violation kind", "VIOLATION", "repaired defect"))]
        results[target] = {"exit": c.returncode, "first": [l[:300] for l in lines[:3]], "wall_s": round(time.time() - t0, 1),
                           "how": "git -C /repo apply; ./check; git -C /repo checkout -- ."}
        print("  ", target, "exit", c.returncode, (lines[0][:160] if lines else ""), flush=True)
    finally:
        sh("git -C /repo checkout -- .")
    assert sh("git -C /repo status --short").stdout.strip() == ""
if ok:
    # 2b. the other checks against a scratch worktree with the change (shadowing the installed
    # package through PYTHONPATH), so that /repo stays untouched meanwhile
    if "--all" in sys.argv:
        ew = f"/tmp/eval-{sid}"
        sh(f"git -C /repo worktree remove --force {ew}")
        assert sh(f"git -C /repo worktree add -q {ew} HEAD").returncode == 0
        try:
            assert sh(f"git -C {ew} apply {patch}").returncode == 0
            env2 = dict(os.environ, PYTHONPATH=ew, VERIF_JOBS=os.environ.get("EVAL_JOBS", "8"))
            for p in [x for x in ALL if x != target]:
                t0 = time.time()
                c = sh(f"cd {ROOT} && ./check {p} --seconds {budget} --no-evidence", env=env2)
                lines = [l for l in c.stdout.splitlines() if l.startswith(("violation kind", "VIOLATION", "repaired defect"))]
                results[p] = {"exit": c.returncode, "first": [l[:300] for l in lines[:3]], "wall_s": round(time.time() - t0, 1),
                              "how": "scratch worktree with the change on PYTHONPATH, 8 workers"}
                print("  ", p, "exit", c.returncode, (lines[0][:160] if lines else ""), flush=True)
        finally:
            sh(f"git -C /repo worktree remove --force {ew}")
meta["checks"] = results
meta["caught_by"] = sorted(p for p, v in results.items() if v["exit"] == 1)
meta["caught_by_target_check"] = results.get(target, {}).get("exit") == 1
# 3. store
dst = os.path.join(ROOT, "seeded", sid)
os.makedirs(dst, exist_ok=True)
shutil.copy(patch, os.path.join(dst, "patch.diff"))
if demo:
    shutil.copy(demo, os.path.join(dst, os.path.basename(demo)))
notes = os.path.join(src, "notes.md")
if os.path.exists(notes):
    shutil.copy(notes, os.path.join(dst, "notes.md"))
    txt = open(notes).read()
    meta["needs_to_manifest"] = "see notes.md"
json.dump(meta, open(os.path.join(dst, "meta.json"), "w"), indent=1)
print(sid, "caught_by", meta["caught_by"])
