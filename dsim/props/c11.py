"""C11 -- connection validation and group scoping (config swarm + run, DESIGN 6.C11)."""
from __future__ import annotations

import copy
import json
from typing import Any, Dict

from .. import gen, runner
from ..engine import digest
from ..loop import h64
from ..oracles import core as ocore
from ..refmodel import RM
from . import core as pcore

ENGINE = "c11"
LEVEL = "exploration"
RULE = ("a case is one scenario containing legal and illegal connect() calls (wrong source/"
        "destination attribute, missing initial data, weak connection with only the root in "
        "common, mixed pairs in one call) with the two ends placed over the whole group tree; it "
        "is executed under 2 schedules; distinct+non-trivial = new scenario digest with at least "
        "one call RM rejects or at least one connection between sibling groups")


def make_case(seed: int, tier: str, prop: str, opts=None) -> Dict[str, Any]:
    sc = gen.gen_config(seed, tier)
    k = 2 if tier == "quick" else 4
    return {"scenario": sc, "schedules": [gen.gen_schedule(seed, sc, j) for j in range(k)]}


def run_case(case, prop) -> Dict[str, Any]:
    sc = case["scenario"]
    rm = RM(sc)
    out = {"runs": 0, "violations": [], "stats": {}, "fps": set(), "ntfps": set(),
           "scen": {h64(json.dumps(sc, sort_keys=True))}, "sim_time": 0.0, "steps": 0,
           "aborted": 0, "completed": 0}
    st = out["stats"]
    n_rej = sum(1 for v in rm.verdicts if v is not None)
    if n_rej:
        st["scenarios_with_rejected_calls"] = 1
        st["rejected_calls"] = n_rej
    sib = any(pcore.group_relation(rm, e.u, e.v) in ("sibling", "root_only")
              and len(rm.path_of[e.u]) > 1 and len(rm.path_of[e.v]) > 1 for e in rm.conns)
    if sib:
        st["sibling_group_connection"] = 1
    if n_rej or sib:
        out["ntfps"].add(next(iter(out["scen"])))
    for c in sc["conns"]:
        k = c.get("illegal_kind")
        if k:
            st["illegal_" + k] = st.get("illegal_" + k, 0) + 1
    if rm.unresolved_cycles():
        st["invalid_scenario"] = 1
        out["digest"] = "invalid"
        return out
    # rejected pairs (for oracle b)
    rejected = []
    accepted_ports = {(e.u, e.ue, e.ua) for e in rm.conns}
    accepted_keys = {(e.v, e.ve, e.va, e.src_full) for e in rm.conns}
    for ci, (c, verdict) in enumerate(zip(sc["conns"], rm.verdicts)):
        if verdict is None:
            continue
        bad = dict(eval(verdict))   # [(pair index, [reasons])]
        u = sc["sims"][c["src"]]["sid"]
        v = sc["sims"][c["dst"]]["sid"]
        for pi, (ua, va) in enumerate(c["pairs"]):
            if pi in bad:
                rejected.append({"ci": ci, "u": u, "ue": f"e{c.get('se', 0)}" + ("c" if c.get("sc") else ""), "ua": ua,
                                 "v": v, "ve": f"e{c.get('de', 0)}" + ("c" if c.get("dc") else ""), "va": va,
                                 "why": bad[pi]})
    digs = []
    reported = set()

    def report(v, hd, sp):
        v.setdefault("features", {})
        v["digest"] = hd
        v["case"] = {"scenario": sc, "schedules": [sp]}
        key = (v["kind"], json.dumps(v["features"], sort_keys=True))
        if key not in reported:
            reported.add(key)
            out["violations"].append(v)
    for j, sp in enumerate(case["schedules"]):
        r = runner.execute(sc, sp)
        out["runs"] += 1
        out["sim_time"] += r.stats["vtime"]
        hd = digest(r.hist)
        digs.append(hd)
        fp = pcore.fingerprint(r.hist)
        out["fps"].add(fp)
        # ---- (a) connect verdicts
        for ci, (got, exp) in enumerate(zip(r.connects, rm.verdicts)):
            if got[0] == "ok" and exp is not None:
                report({"kind": "illegal_connect_accepted",
                        "features": {"why": sorted({w for _, ws in eval(exp) for w in ws})[0],
                                     "groups": pcore.group_relation(
                                         rm, sc["sims"][sc["conns"][ci]["src"]]["sid"],
                                         sc["sims"][sc["conns"][ci]["dst"]]["sid"])},
                        "detail": {"call": sc["conns"][ci], "rm": exp}}, hd, sp)
            elif got[0] == "ScenarioError" and exp is None:
                report({"kind": "legal_connect_rejected", "features": {},
                        "detail": {"call": sc["conns"][ci], "message": got[1]}}, hd, sp)
            elif got[0] not in ("ok", "ScenarioError"):
                report({"kind": "connect_raised_other", "features": {"type": got[0]},
                        "detail": {"call": sc["conns"][ci], "message": got[1], "tb": (r.tb or "")[-600:]}}, hd, sp)
        if any((g[0] == "ok") != (e is None) for g, e in zip(r.connects, rm.verdicts)):
            continue     # connection tables differ: run oracles would only echo that
        oc = r.outcome
        out["completed" if oc[0] == "ok" else "aborted"] += 1
        # ---- (b) a rejected pair leaves no data-flow behind
        for rec in r.hist:
            if rec[0] == "begin" and rec[1] == "get_data":
                req = rec[4][0]
                for rj in rejected:
                    if rj["u"] == rec[2] and rj["ua"] in req.get(rj["ue"], []) and \
                            (rj["u"], rj["ue"], rj["ua"]) not in accepted_ports:
                        report({"kind": "get_data_names_rejected_attr", "features": {"why": rj["why"][0]},
                                "detail": {"rejected": rj, "request": req}}, hd, sp)
            elif rec[0] == "begin" and rec[1] == "step":
                inp = ocore.norm_inputs(rec[4][1])
                for rj in rejected:
                    if rj["v"] != rec[2]:
                        continue
                    key = (rj["ve"], rj["va"], f"{rj['u']}.{rj['ue']}")
                    if key in inp and (rj["v"],) + key not in accepted_keys:
                        report({"kind": "rejected_pair_delivers_data", "features": {"why": rj["why"][0]},
                                "detail": {"rejected": rj, "step": rec[3], "value": inp[key]}}, hd, sp)
        A = ocore.analyse(r.hist, rm, oc, sc["config"])
        out["steps"] += A.n_steps
        dest_of_rejected_trigger = {rj["v"] for rj in rejected}
        for v in A.viol.get("C02", []):
            if v["kind"] == "spurious" and v["sid"] in dest_of_rejected_trigger:
                report({"kind": "step_caused_by_rejected_pair", "features": {},
                        "detail": dict(v)}, hd, sp)
        # ---- (c) sibling groups do not share sub-time
        for v in A.viol.get("C01", []):
            e = next((x for x in rm.conns if x.ci == v.get("ci")), None)
            if e is not None and pcore.group_relation(rm, e.u, e.v) in ("sibling", "root_only"):
                report({"kind": "sibling_groups_share_subtime", "features": {"c01": v["kind"]},
                        "detail": dict(v)}, hd, sp)
        for v in A.viol.get("C02", []):
            if v["kind"] in ("spurious", "tier_depth"):
                # a step at a tiered time RM does not demand, where RM's demand differs only
                # in which tier a weak hop between different groups advanced
                if sib or any(pcore.group_relation(rm, e.u, e.v) != "same" for e in rm.conns if e.weak):
                    report({"kind": "wrong_tier_for_group_scope", "features": {"c02": v["kind"]},
                            "detail": dict(v)}, hd, sp)
    out["sample"] = {"conns": sc["conns"][:6], "sim_groups": [s["group"] for s in sc["sims"]],
                     "groups": sc["groups"], "rm_verdicts": rm.verdicts[:6]}
    out["digest"] = digest(digs)
    return out


def shrink_candidates(case, prop):
    for cand in pcore.shrink_candidates(case, prop):
        yield cand
