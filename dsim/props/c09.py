"""C09 -- same-time loop guard (loop swarm, DESIGN 6.C09)."""
from __future__ import annotations

import json
import re
from typing import Any, Dict

from .. import gen, runner
from ..engine import digest
from ..loop import h64
from ..oracles import core as ocore
from ..refmodel import RM
from . import core as pcore

ENGINE = "c09"
LEVEL = "exploration"
RULE = ("a case is a group (tier 1 or 2) with a cycle closed by one weak connection whose first "
        "member stops producing after L sub-steps, L in {M-2..M+2, never}, M=max_loop_iterations "
        "in 1..6, plus 0-2 attached simulators; executed under 3 schedules; distinct+non-trivial = "
        "new (scenario, interleaving) pair in which at least one sub-step (sub-time > 0) was demanded")


def make_case(seed: int, tier: str, prop: str, opts=None) -> Dict[str, Any]:
    sc = gen.gen_loop(seed, tier)
    k = 3 if tier == "quick" else 6
    return {"scenario": sc, "schedules": [gen.gen_schedule(seed, sc, j) for j in range(k)]}


def run_case(case, prop) -> Dict[str, Any]:
    sc = case["scenario"]
    rm = RM(sc)
    out = {"runs": 0, "violations": [], "stats": {}, "fps": set(), "ntfps": set(),
           "scen": {h64(json.dumps(sc, sort_keys=True))}, "sim_time": 0.0, "steps": 0,
           "aborted": 0, "completed": 0}
    st = out["stats"]
    if any(v is not None for v in rm.verdicts) or rm.unresolved_cycles():
        st["invalid_scenario"] = 1
        out["digest"] = "invalid"
        return out
    M = sc["config"]["mli"]
    lp = sc.get("loop", {})
    st[f"L_minus_M_{'inf' if lp.get('L') is None else max(-3, min(3, lp['L'] - M))}"] = 1
    st[f"loop_tier_{lp.get('tier', 1)}"] = 1
    n_weak_cycles = sum(1 for e in rm.conns if e.weak)
    digs = []
    reported = set()

    def report(v, hd, sp):
        v.setdefault("features", {})
        v["digest"] = hd
        v["case"] = {"scenario": sc, "schedules": [sp]}
        key = (v["kind"], json.dumps(v["features"], sort_keys=True))
        if key not in reported:
            reported.add(key)
            out["violations"].append(v)
    for j, sp in enumerate(case["schedules"]):
        r = runner.execute(sc, sp)
        out["runs"] += 1
        out["sim_time"] += r.stats["vtime"]
        hd = digest(r.hist)
        digs.append(hd)
        fp = pcore.fingerprint(r.hist)
        out["fps"].add(fp)
        oc = r.outcome
        A = ocore.analyse(r.hist, rm, oc, sc["config"])
        out["steps"] += A.n_steps
        over = {sid: sorted(t for t in d if any(x >= M for x in t[1:])) for sid, d in A.dem.items()}
        over = {sid: v for sid, v in over.items() if v}
        # the property counts sub-steps *within one time step*; mosaik looks at the sub-time labels.
        # Both agree as long as every time step starts at sub-time 0.
        over_count = {}
        for sid_, d_ in A.dem.items():
            for i_ in range(1, rm.depth[sid_]):
                groups_ = {}
                for t_ in d_:
                    groups_.setdefault(t_[:i_], set()).add(t_[:i_ + 1])
                if any(len(v_) > M for v_ in groups_.values()):
                    over_count[sid_] = True
        any_sub = any(any(x > 0 for x in t[1:]) for d in A.dem.values() for t in d)
        if any_sub:
            st["substeps_demanded"] = st.get("substeps_demanded", 0) + 1
            out["ntfps"].add(h64(next(iter(out["scen"])), fp))
        executed_over = [(sid, s.tau) for sid, sl in A.steps.items() for s in sl
                         if s.tau is not None and any(x >= M for x in s.tau[1:])]
        if executed_over:
            report({"kind": "step_beyond_limit_executed", "detail": {"steps": executed_over[:3], "M": M}}, hd, sp)
        is_guard = (oc[0] == "exception" and oc[1] == "SimulationError"
                    and "has performed a sub-step more than" in oc[2])
        if oc[0] == "ok":
            out["completed"] += 1
            if over:
                report({"kind": "guard_missing", "detail": {"demanded_beyond_limit": {k: v[:2] for k, v in over.items()}, "M": M}}, hd, sp)
            else:
                st["settled_within_bound"] = st.get("settled_within_bound", 0) + 1
                # the loop ran exactly its iterations and time advanced: executed == demanded
                for v in A.viol.get("C02", []):
                    report({"kind": "loop_steps_wrong", "features": {"c02": v["kind"]}, "detail": dict(v)}, hd, sp)
        else:
            out["aborted"] += 1
            if is_guard:
                st["guard_fired"] = st.get("guard_fired", 0) + 1
                m = re.match(r"Simulator (\S+) has performed", oc[2])
                named = m.group(1) if m else None
                if not over:
                    report({"kind": "guard_fired_within_bound",
                            "detail": {"message": oc[2], "M": M,
                                       "max_demanded_subtier": max([max(t[1:], default=0) for d in A.dem.values() for t in d], default=0)}}, hd, sp)
                elif not over_count and n_weak_cycles <= 1 and carried(A, rm):
                    # the label reached the bound although no simulator was asked for more than M
                    # sub-steps in any one time step: sub-time from an *earlier* time step was carried
                    # into this one over a time-shifted connection inside the group, so the label is
                    # no longer the number of weak hops taken in this time step
                    report({"kind": "guard_fired_within_bound",
                            "features": {"subtime_carried_over_shifted_connection": True},
                            "detail": {"message": oc[2], "M": M, "named": named,
                                       "carried": carried(A, rm)[:3],
                                       "demands_of_named": sorted(A.dem.get(named, {}))[-8:]}}, hd, sp)
                elif named not in over:
                    if n_weak_cycles <= 1:
                        report({"kind": "guard_names_wrong_simulator",
                                "detail": {"named": named, "beyond_limit": {k: v[:2] for k, v in over.items()}}}, hd, sp)
                m2 = re.search(r"more than (\d+) times", oc[2])
                if m2 and int(m2.group(1)) != M:
                    report({"kind": "guard_reports_wrong_limit", "detail": {"message": oc[2], "M": M}}, hd, sp)
            elif oc[0] in ("deadlock", "livelock", "hang"):
                report({"kind": "loop_" + oc[0], "features": {"guard_expected": bool(over)},
                        "detail": {"outcome": list(oc)}}, hd, sp)
            else:
                report({"kind": "other_failure", "features": {"type": oc[1] if len(oc) > 1 else None,
                                                               "guard_expected": bool(over)},
                        "detail": {"outcome": list(oc), "tb": (r.tb or "")[-700:]}}, hd, sp)
    out["sample"] = {"loop": lp, "sims": [(s["sid"], s["type"], s["group"]) for s in sc["sims"]],
                     "conns": sc["conns"], "until": sc["until"]}
    out["digest"] = digest(digs)
    return out


def carried(A, rm):
    """Demands whose cause is a trigger over a time-shifted connection inside a group, sent from a
    step with a sub-time > 0: the receiver's time step starts with that sub-time."""
    out = []
    for sid, d in A.dem.items():
        for tau, causes in d.items():
            for c in causes:
                if c[0] != "trigger":
                    continue
                e = rm.conns[c[3]]
                if not (e.k >= 1 and e.c >= 2):
                    continue
                src = A.steps[c[1]][c[2]]
                st = getattr(src, "out_tau", None) or src.tau
                if st is not None and any(x > 0 for x in st[1:e.c]):
                    out.append((sid, tau, c[1], st))
    return out


def shrink_candidates(case, prop):
    for cand in pcore.shrink_candidates(case, prop):
        # keep the loop bound under test
        if cand["scenario"]["config"].get("mli") != case["scenario"]["config"].get("mli"):
            continue
        yield cand
