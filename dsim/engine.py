"""Campaign engine: seeded search over cases on all cores, known-finding matching,
minimisation, replay files, evidence (DESIGN 7, 9, 10)."""
from __future__ import annotations

import concurrent.futures as cf
import faulthandler
import hashlib
import importlib
import json
import multiprocessing as mp
import os
import subprocess
import sys
import time
import traceback
from typing import Any, Dict, List, Optional

from .loop import h64

ROOT = os.path.dirname(os.path.dirname(os.path.abspath(__file__)))
PY = sys.executable

PROP_MODULES = {
    "C01": "dsim.props.core", "C02": "dsim.props.core", "C03": "dsim.props.core",
    "C05": "dsim.props.core", "C07": "dsim.props.core", "C10": "dsim.props.core",
    "C04": "dsim.props.c04", "C06": "dsim.props.c06", "C09": "dsim.props.c09",
    "C11": "dsim.props.c11", "C13": "dsim.props.c13", "C14": "dsim.props.c14",
    "C15": "dsim.props.c15", "C16": "dsim.props.c16", "C17": "dsim.props.c17",
    "C18": "dsim.props.c18",
}


def prop_module(prop):
    return importlib.import_module(PROP_MODULES[prop])


def digest(obj) -> str:
    return hashlib.blake2b(repr(obj).encode(), digest_size=8).hexdigest()


def jdefault(o):
    if isinstance(o, (set, frozenset)):
        return sorted(o, key=repr)
    if isinstance(o, tuple):
        return list(o)
    return repr(o)


def jdump(o, **kw):
    return json.dumps(o, default=jdefault, **kw)


# ------------------------------------------------------------------ known findings
def load_known():
    p = os.path.join(ROOT, "known_findings.json")
    if not os.path.exists(p):
        return {"findings": [], "fixed": []}
    with open(p) as f:
        return json.load(f)


def match_known(prop, viol, known) -> Optional[Dict[str, Any]]:
    """An entry matches a violation iff property and kind agree and every feature the
    entry names has exactly the entry's value in the violation's features."""
    feats = viol.get("features", {})
    for e in known.get("findings", []):
        if e.get("status", "open") != "open" or e["property"] != prop:
            continue
        m = e["match"]
        if viol["kind"] not in m["kind"]:
            continue
        if all(feats.get(k) == v for k, v in m.get("features", {}).items()):
            return e
    return None


# ------------------------------------------------------------------ workers
def _worker_init():
    import warnings
    warnings.filterwarnings("ignore")
    sys.stdout = open(os.devnull, "w")
    faulthandler.enable()


def _run_chunk(args):
    prop, root_seed, tier, start, count, deadline, recheck_every, opts = args
    mod = prop_module(prop)
    known = load_known()
    out = {"cases": 0, "runs": 0, "violations": [], "stats": {}, "fps": set(), "ntfps": set(),
           "scen": set(), "harness": [], "samples": [], "recheck": 0, "recheck_bad": [],
           "sim_time": 0.0, "steps": 0, "aborted": 0, "completed": 0, "known": {}}
    faulthandler.dump_traceback_later(max(30.0, deadline - time.time() + 60.0), exit=True)
    try:
        for i in range(start, start + count):
            if time.time() > deadline:
                break
            seed = h64(root_seed, prop if not opts.get("shared_seed") else mod.ENGINE, i)
            try:
                case = mod.make_case(seed, tier, prop, opts)
                res = mod.run_case(case, prop)
            except Exception:  # noqa: BLE001  harness error, never a violation
                out["harness"].append({"i": i, "seed": seed, "tb": traceback.format_exc()[-1500:]})
                if len(out["harness"]) > 5:
                    break
                continue
            out["cases"] += 1
            out["runs"] += res.get("runs", 1)
            out["sim_time"] += res.get("sim_time", 0.0)
            out["steps"] += res.get("steps", 0)
            out["aborted"] += res.get("aborted", 0)
            out["completed"] += res.get("completed", 0)
            for k, v in res.get("stats", {}).items():
                out["stats"][k] = out["stats"].get(k, 0) + v
            out["fps"].update(res.get("fps", ()))
            out["ntfps"].update(res.get("ntfps", ()))
            out["scen"].update(res.get("scen", ()))
            for v in res.get("violations", []):
                e = match_known(prop, v, known)
                if e is not None:
                    out["known"][e["id"]] = out["known"].get(e["id"], 0) + 1
                    continue
                if len(out["violations"]) < 40:
                    out["violations"].append({"i": i, "seed": seed, "case": v.pop("case", case), **v})
                else:
                    out["stats"]["violations_dropped"] = out["stats"].get("violations_dropped", 0) + 1
            if len(out["samples"]) < 2 and res.get("sample") is not None:
                out["samples"].append(res["sample"])
            if recheck_every and i % recheck_every == 0:
                try:
                    res2 = mod.run_case(mod.make_case(seed, tier, prop, opts), prop)
                    out["recheck"] += 1
                    if res2.get("digest") != res.get("digest"):
                        out["recheck_bad"].append({"i": i, "seed": seed})
                except Exception:  # noqa: BLE001
                    out["harness"].append({"i": i, "seed": seed, "tb": traceback.format_exc()[-1500:]})
    finally:
        faulthandler.cancel_dump_traceback_later()
    return out


def campaign(prop: str, tier: str, root_seed: int, budget_s: float, jobs: int,
             opts: Optional[Dict[str, Any]] = None, chunk: int = 40,
             max_cases: Optional[int] = None) -> Dict[str, Any]:
    opts = dict(opts or {})
    t0 = time.time()
    deadline = t0 + budget_s
    agg = {"cases": 0, "runs": 0, "violations": [], "stats": {}, "fps": set(), "ntfps": set(),
           "scen": set(), "harness": [], "samples": [], "recheck": 0, "recheck_bad": [],
           "sim_time": 0.0, "steps": 0, "aborted": 0, "completed": 0, "timeouts": 0,
           "known": {}}
    ctx = mp.get_context("fork")
    next_i = 0
    recheck_every = opts.get("recheck_every", 20)
    with cf.ProcessPoolExecutor(max_workers=jobs, mp_context=ctx, initializer=_worker_init) as ex:
        pending = set()

        def submit():
            nonlocal next_i
            n = chunk
            if max_cases is not None:
                n = min(n, max_cases - next_i)
                if n <= 0:
                    return False
            f = ex.submit(_run_chunk, (prop, root_seed, tier, next_i, n, deadline,
                                       recheck_every, opts))
            next_i += n
            pending.add(f)
            return True
        for _ in range(jobs * 2):
            if not submit():
                break
        while pending:
            done, _ = cf.wait(pending, timeout=max(5.0, deadline - time.time() + 90.0),
                              return_when=cf.FIRST_COMPLETED)
            if not done:
                agg["timeouts"] += len(pending)
                for f in pending:
                    f.cancel()
                break
            for f in done:
                pending.discard(f)
                try:
                    r = f.result()
                except Exception:  # noqa: BLE001  (worker died)
                    agg["harness"].append({"tb": "worker failed: " + traceback.format_exc()[-800:]})
                    continue
                for k in ("cases", "runs", "recheck", "sim_time", "steps", "aborted", "completed"):
                    agg[k] += r[k]
                for k, v in r["stats"].items():
                    agg["stats"][k] = agg["stats"].get(k, 0) + v
                for k, v in r["known"].items():
                    agg["known"][k] = agg["known"].get(k, 0) + v
                for k in ("fps", "ntfps", "scen"):
                    agg[k] |= r[k]
                agg["violations"].extend(r["violations"])
                agg["harness"].extend(r["harness"])
                agg["recheck_bad"].extend(r["recheck_bad"])
                if len(agg["samples"]) < 2:
                    agg["samples"].extend(r["samples"][: 2 - len(agg["samples"])])
                if time.time() < deadline and len(agg["violations"]) < 400:
                    submit()
    agg["wall_s"] = time.time() - t0
    return agg


# ------------------------------------------------------------------ hermetic execution
class Hermetic:
    """A helper process forked before this process has executed any simulated run.  Every request
    is executed in a fresh fork of the helper, i.e. in a process in which mosaik has never run:
    module-level state that a (changed) mosaik keeps between Worlds cannot carry over from the
    thousands of runs a worker has behind it.  Used to confirm violations and to minimise them."""

    def __init__(self):
        self.parent, child = mp.Pipe()
        self.pid = os.fork()
        if self.pid == 0:
            try:
                self.parent.close()
                self._serve(child)
            finally:
                os._exit(0)
        child.close()

    @staticmethod
    def _serve(conn):
        import signal
        while True:
            try:
                msg = conn.recv()
            except EOFError:
                return
            if msg is None:
                return
            prop, case, timeout = msg
            r, w = mp.Pipe(duplex=False)
            pid = os.fork()
            if pid == 0:
                try:
                    r.close()
                    try:
                        res = prop_module(prop).run_case(case, prop)
                        res = {"violations": res.get("violations", []), "digest": res.get("digest")}
                        w.send(("ok", res))
                    except BaseException:  # noqa: BLE001
                        w.send(("error", traceback.format_exc()[-1500:]))
                finally:
                    os._exit(0)
            w.close()
            out = ("error", "no result")
            if r.poll(timeout):
                try:
                    out = r.recv()
                except EOFError:
                    out = ("error", "child died")
            else:
                try:
                    os.kill(pid, signal.SIGKILL)
                except OSError:
                    pass
                out = ("error", "timeout")
            try:
                os.waitpid(pid, 0)
            except OSError:
                pass
            r.close()
            conn.send(out)

    def run(self, prop, case, timeout=120.0):
        self.parent.send((prop, case, timeout))
        if not self.parent.poll(timeout + 30.0):
            return ("error", "helper timeout")
        return self.parent.recv()

    def close(self):
        try:
            self.parent.send(None)
            self.parent.close()
            os.waitpid(self.pid, 0)
        except Exception:  # noqa: BLE001
            pass


HERMETIC: Optional[Hermetic] = None


def run_case_hermetic(prop, case):
    """run_case in a process that has never executed a run (falls back to in-process)."""
    if HERMETIC is None:
        return prop_module(prop).run_case(case, prop)
    st, res = HERMETIC.run(prop, case)
    if st != "ok":
        raise RuntimeError("hermetic run failed: " + str(res)[-600:])
    return res


# ------------------------------------------------------------------ minimisation
def minimise(prop: str, viol: Dict[str, Any], known, budget_runs=600, budget_s=25.0):
    """Greedy reduction of the failing case; a candidate is kept iff the same
    (property, kind) is still reported and its known-finding status is unchanged."""
    mod = prop_module(prop)
    case = viol["case"]
    kind = viol["kind"]
    want_known = match_known(prop, viol, known)
    want_id = want_known["id"] if want_known else None
    t0 = time.time()
    n = 0
    best_v = viol

    def still(c):
        nonlocal n, best_v
        n += 1
        try:
            res = run_case_hermetic(prop, c)
        except Exception:  # noqa: BLE001
            return False
        for v in res.get("violations", []):
            if v["kind"] == kind:
                k = match_known(prop, v, known)
                if (k["id"] if k else None) == want_id:
                    best_v = v
                    return True
        return False
    if not hasattr(mod, "shrink_candidates"):
        return case, viol, 0
    from . import runner as _runner
    _runner._WD_SCALE[0] = 0.4 if kind.startswith("hang") else 1.0
    if kind.startswith("hang"):
        budget_s = max(budget_s, 120.0)
    try:
        return _minimise_loop(mod, prop, case, viol, known, kind, want_id, budget_runs, budget_s, still, lambda: (n, best_v))
    finally:
        _runner._WD_SCALE[0] = 1.0


def _minimise_loop(mod, prop, case, viol, known, kind, want_id, budget_runs, budget_s, still, state):
    t0 = time.time()
    progress = True
    while progress and state()[0] < budget_runs and time.time() - t0 < budget_s:
        progress = False
        for cand in mod.shrink_candidates(case, prop):
            if state()[0] >= budget_runs or time.time() - t0 > budget_s:
                break
            if still(cand):
                case = cand
                progress = True
                break
    n, best_v = state()
    out_v = dict(best_v)
    out_v["case"] = case
    return case, out_v, n


# ------------------------------------------------------------------ replay
def write_replay(prop, viol, sig, known_dir=False) -> str:
    d = os.path.join(ROOT, "replays", "known" if known_dir else "")
    os.makedirs(d, exist_ok=True)
    path = os.path.join(d, f"{prop}-{sig}.json")
    rec = {"property": prop, "kind": viol["kind"], "features": viol.get("features", {}),
           "detail": viol.get("detail"), "case": viol["case"],
           "expect": {"kind": viol["kind"], "digest": viol.get("digest")}}
    with open(path, "w") as f:
        f.write(jdump(rec, indent=1))
    return path


def run_replay(prop, path, verbose=True) -> int:
    with open(path) as f:
        rec = json.load(f)
    mod = prop_module(prop)
    res = mod.run_case(rec["case"], prop)
    hit = [v for v in res.get("violations", []) if v["kind"] == rec["expect"]["kind"]]
    if hit:
        v = hit[0]
        same = (rec["expect"].get("digest") is None or v.get("digest") == rec["expect"]["digest"])
        if verbose:
            print(f"replay reproduces {prop}/{v['kind']} digest_match={same}")
            print("detail:", jdump(v.get("detail"))[:1500])
            print(f"VIOLATION property={prop} replay={path}")
        return 1
    if verbose:
        print(f"replay does NOT reproduce {prop}/{rec['expect']['kind']}"
              f" (violations now: {[v['kind'] for v in res.get('violations', [])]})")
    return 0


def replay_fresh(prop, path) -> Optional[Dict[str, Any]]:
    """Re-execute a replay file in a fresh interpreter (other PYTHONHASHSEED)."""
    env = dict(os.environ)
    env["PYTHONHASHSEED"] = "12345"
    p = subprocess.run([PY, os.path.join(ROOT, "check"), prop, "--replay", path, "--json"],
                       capture_output=True, text=True, env=env, cwd=ROOT, timeout=300)
    for line in p.stdout.splitlines():
        if line.startswith("REPLAY-JSON "):
            return json.loads(line[len("REPLAY-JSON "):])
    return None


def replay_json(prop, path):
    with open(path) as f:
        rec = json.load(f)
    mod = prop_module(prop)
    res = mod.run_case(rec["case"], prop)
    hit = [v for v in res.get("violations", []) if v["kind"] == rec["expect"]["kind"]]
    out = {"reproduced": bool(hit), "digest": hit[0].get("digest") if hit else None,
           "features": hit[0].get("features") if hit else None,
           "kinds": [v["kind"] for v in res.get("violations", [])]}
    print("REPLAY-JSON " + jdump(out))
    return out
