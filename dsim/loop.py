"""DetLoop -- a virtual-time, single-PRNG asyncio event loop (DESIGN 3.1, 3.2).

* ready callbacks run in FIFO order exactly as in stock asyncio;
* timers and *external events* (deliveries, faults) live in one heap ordered by
  ``(instant, tie-break)``; the tie-break of an external event is a keyed hash chosen
  by the caller, that of an ordinary ``call_later`` timer a keyed hash of its creation
  ordinal -- so equal instants are ordered by the schedule seed, not by heap accidents;
* at every iteration boundary everything due is moved to the ready queue (also while
  other callbacks are still queued);
* an idle loop jumps the clock to the earliest pending instant; an idle loop with
  nothing pending raises :class:`Deadlock`; a callback cap raises :class:`Livelock`;
* ``close()`` first performs the post-mortem drain: only handles created in a *node*
  context (simulated remote processes / network towards them) still run.
"""
from __future__ import annotations

import asyncio
import contextvars
import hashlib
import heapq
from asyncio import events

NODE = contextvars.ContextVar("dsim_node", default=None)


def h64(*key) -> int:
    d = hashlib.blake2b(repr(key).encode(), digest_size=8).digest()
    return int.from_bytes(d, "big")


def h01(*key) -> float:
    return h64(*key) / 2.0 ** 64


class Deadlock(RuntimeError):
    """Loop idle, nothing pending, but the awaited future is not done."""


class Livelock(RuntimeError):
    """Callback cap exceeded."""


class SyncHang(SystemExit):
    """Raised from a watchdog signal when one synchronous stretch of code (no event-loop
    iteration in between) runs for many seconds: an endless loop outside the loop's
    reach.  Subclass of SystemExit so that asyncio passes it through."""


class _Timer(events.TimerHandle):
    __slots__ = ("_tb",)

    def __lt__(self, other):
        return (self._when, self._tb) < (other._when, other._tb)

    def __le__(self, other):
        return (self._when, self._tb) <= (other._when, other._tb)

    def __gt__(self, other):
        return (self._when, self._tb) > (other._when, other._tb)

    def __ge__(self, other):
        return (self._when, self._tb) >= (other._when, other._tb)

    def __eq__(self, other):
        return self is other

    __hash__ = events.TimerHandle.__hash__


class DetLoop(asyncio.BaseEventLoop):
    def __init__(self, sched_seed: int = 0, iteration_cost: float = 0.0,
                 max_callbacks: int = 2_000_000):
        super().__init__()
        self._vtime = 0.0
        self.sched_seed = sched_seed
        self.iteration_cost = iteration_cost
        self.max_callbacks = max_callbacks
        self.max_idle_vtime = float("inf")
        self.last_event_vtime = 0.0
        self.callbacks_run = 0
        self.iterations = 0
        self.clock_jumps = 0
        self._timer_seq = 0
        self._draining = False
        self._drained = False
        self.drain_dropped = 0
        self.drain_ran = 0
        self.ext_fired = 0
        self.ties_broken = 0     # iteration boundaries at which >= 2 external instants tied
        self.on_quiescent = None  # optional hook: called when idle; may add events
        self.final_cleanup = None  # optional hook: called after the drain, before close
        self.deadlocked = False
        self.livelocked = False
        self.on_iteration = None  # optional hook: called at every iteration (watchdog re-arm)

    # -- clock -----------------------------------------------------------------
    def time(self):
        return self._vtime

    def _process_events(self, event_list):
        pass

    def _write_to_self(self):
        pass

    # -- timers ------------------------------------------------------------------
    def call_at(self, when, callback, *args, context=None, tb=None):
        if when is None:
            raise TypeError("when cannot be None")
        self._check_closed()
        timer = _Timer(when, callback, args, self, context)
        self._timer_seq += 1
        if tb is None:
            timer._tb = (h01(self.sched_seed, "timer", self._timer_seq), self._timer_seq)
        else:
            timer._tb = (tb, self._timer_seq)
        heapq.heappush(self._scheduled, timer)
        timer._scheduled = True
        return timer

    def ext_event(self, delay: float, key, callback, *args, context=None):
        """Schedule an external event: fires at the first iteration boundary at or
        after now+delay; ties ordered by H(sched_seed, key)."""
        return self.call_at(self._vtime + max(0.0, delay), callback, *args,
                            context=context, tb=h01(self.sched_seed, "ext", key))

    def gate(self, delay: float, key):
        """Awaitable external event."""
        fut = self.create_future()

        def fire():
            self.ext_fired += 1
            if not fut.done():
                fut.set_result(None)
        self.ext_event(delay, key, fire)
        return fut

    # -- the loop ----------------------------------------------------------------
    def _run_once(self):
        if self.on_iteration is not None:
            self.on_iteration()
        sched = self._scheduled
        while sched and sched[0]._cancelled:
            h = heapq.heappop(sched)
            h._scheduled = False
            self._timer_cancelled_count = max(0, self._timer_cancelled_count - 1)

        if not self._ready and not self._stopping:
            if not sched and self.on_quiescent is not None and not self._draining:
                self.on_quiescent()
            if sched:
                if sched[0]._when > self._vtime:
                    if sched[0]._when > self.last_event_vtime + self.max_idle_vtime and not self._draining:
                        # timers keep the loop alive, but nothing observable (no request, reply, log
                        # line, ...) has happened for far longer than any delay of this run: in a real
                        # deployment this is a run that polls for ever
                        self.livelocked = True
                        raise Livelock(f"nothing happened for {self.max_idle_vtime} virtual seconds")
                    self._vtime = sched[0]._when
                    self.clock_jumps += 1
            elif self._draining:
                self._stopping = True
                return
            else:
                self.deadlocked = True
                raise Deadlock("event loop idle with unfinished work")

        n_due = 0
        last_when = None
        tie = False
        while sched and sched[0]._when <= self._vtime:
            h = heapq.heappop(sched)
            h._scheduled = False
            if h._cancelled:
                self._timer_cancelled_count = max(0, self._timer_cancelled_count - 1)
                continue
            if last_when is not None and h._when == last_when:
                tie = True
            last_when = h._when
            n_due += 1
            self._ready.append(h)
        if tie:
            self.ties_broken += 1

        self.iterations += 1
        ntodo = len(self._ready)
        ran = 0
        for _ in range(ntodo):
            h = self._ready.popleft()
            if h._cancelled:
                continue
            if self._draining:
                ctx = h._context
                if ctx is None or ctx.get(NODE) is None:
                    self.drain_dropped += 1
                    continue
                self.drain_ran += 1
            ran += 1
            h._run()
        h = None
        self.callbacks_run += ran
        if ran and self.iteration_cost:
            self._vtime += self.iteration_cost
        if self.callbacks_run > self.max_callbacks:
            self.livelocked = True
            raise Livelock(f"more than {self.max_callbacks} callbacks")

    # -- post-mortem drain -------------------------------------------------------
    def drain(self):
        """Let the simulated network and the node tasks outlive mosaik's loop:
        deliveries towards nodes and node code still run, nothing of mosaik does."""
        if self._drained or self.is_closed() or self.is_running():
            return
        self._drained = True
        self._draining = True
        try:
            self.max_callbacks += 200_000
            self.run_forever()
        finally:
            self._draining = False

    def close(self):
        if not self.is_closed() and not self.is_running():
            if getattr(self, "close_vtime", None) is None:
                self.close_vtime = self.time()       # (the post-mortem drain below is not mosaik's time)
            try:
                self.drain()
            except Livelock:
                pass
            if self.final_cleanup is not None:
                try:
                    self.final_cleanup()
                except Livelock:
                    pass
        self.pending_at_close = [h for h in self._scheduled if not h._cancelled]
        super().close()

    def drain_more(self):
        """Run node-context work again until quiescent (used after cancelling node
        tasks that were left behind)."""
        if self.is_closed() or self.is_running():
            return
        self._draining = True
        try:
            self.run_forever()
        finally:
            self._draining = False
