"""C18 -- bulk connection helpers (PRNG seam, DESIGN 6.C18).  Thin use of the technique:
the only simulated nondeterminism is the stream of mosaik.util's `random` module, which is
rebound to a scripted source; World is a recorder stub."""
from __future__ import annotations

import json
import random as _random
from typing import Any, Dict

from ..engine import digest
from ..loop import h64
from .. import mutants as _mutants

_mutants.apply_from_env()      # sensitivity self-test only (DSIM_MUTANT)

ENGINE = "c18"
LEVEL = "exploration"
RULE = ("a case is (|src| 0..12 (1 %: 1200-4001 onto 1-3 destinations), |dst| 1..8, max_connects 1..6 or inf, evenly on/off, helper, "
        "scripted random stream: seeded uniform / always lowest / always highest / round robin / "
        "fill one destination then the next); biased to the boundary |src| = |dst|*max_connects; "
        "distinct+non-trivial = distinct case with at least two sources and two destinations")
MODES = ("uniform", "lowest", "highest", "round_robin", "fill")


class ScriptedRandom:
    def __init__(self, mode, seed):
        self.mode = mode
        self.rng = _random.Random(seed)
        self.n = 0
        self.calls = 0

    def randint(self, a, b):
        self.calls += 1
        if b < a:
            raise ValueError("empty range for randrange() (%d, %d, %d)" % (a, b + 1, b + 1 - a))
        m = self.mode
        if m == "uniform":
            return self.rng.randint(a, b)
        if m == "lowest" or m == "fill":
            return a
        if m == "highest":
            return b
        self.n += 1
        return a + (self.n - 1) % (b - a + 1)

    def shuffle(self, x):
        self.calls += 1
        m = self.mode
        if m == "uniform":
            self.rng.shuffle(x)
        elif m == "highest":
            x.reverse()
        elif m == "round_robin":
            if x:
                x.append(x.pop(0))
        # lowest / fill: leave as is


class Ent:
    __slots__ = ("name",)

    def __init__(self, name):
        self.name = name

    def __repr__(self):
        return self.name


class RecWorld:
    def __init__(self):
        self.calls = []

    def connect(self, src, dest, *attrs, **kw):
        self.calls.append((src, dest, attrs, kw))


def make_case(seed: int, tier: str, prop: str, opts=None) -> Dict[str, Any]:
    rng = _random.Random(h64(seed, "c18"))
    nd = rng.randint(1, 8)
    mc = rng.choice([None, 1, 1, 2, 3, 4, 6])
    helper = rng.choice(["randomly", "randomly", "randomly", "many_to_one"])
    evenly = rng.random() < 0.4
    if mc is not None and not evenly and rng.random() < 0.5:
        ns = nd * mc if nd * mc <= 14 else rng.randint(0, 12)       # the boundary
    else:
        ns = rng.randint(0, 12)
    if mc is not None and not evenly:
        ns = min(ns, nd * mc)
    if rng.random() < 0.01:
        # many sources onto very few destinations (thousands of rounds of the even distribution)
        ns, nd, evenly, mc = rng.choice([1200, 2500, 4001]), rng.choice([1, 2, 3]), True, None
    return {"ns": ns, "nd": nd, "max_connects": mc, "evenly": evenly, "helper": helper,
            "iterable": rng.choice(["list", "tuple", "generator"]),
            "mode": rng.choice(MODES), "rseed": rng.randrange(1 << 30),
            "attrs": rng.choice([["a"], ["a", ["b", "c"]]]),
            # the caller's destination collection (its own list object, or a tuple) and a second
            # call that passes the very same object again (e.g. PVs, then loads, onto the same buses)
            "dest_iterable": rng.choice(["list", "list", "tuple"]),
            "second_ns": rng.choice([None, None, rng.randint(0, 12)]),
            # real mosaik entities: the destinations belong to several instances of one simulator,
            # whose entity ids coincide (Grid-0.node_0, Grid-1.node_0, ...)
            "entities": rng.choice([None, None, None, 2, 3])}


def run_case(case, prop) -> Dict[str, Any]:
    import mosaik.util as mu
    out = {"runs": 1, "violations": [], "stats": {}, "fps": set(), "ntfps": set(),
           "scen": set(), "sim_time": 0.0, "steps": 0, "aborted": 0, "completed": 0}
    st = out["stats"]
    src = [Ent(f"s{i}") for i in range(case["ns"])]
    dst = [Ent(f"d{i}") for i in range(case["nd"])]
    if case.get("entities"):
        from mosaik.scenario import Entity
        k_ = case["entities"]
        src = [Entity(f"Pv-{i % k_}", f"pv_{i // k_}", "Pv", None, None) for i in range(case["ns"])]
        dst = [Entity(f"Grid-{i % k_}", f"node_{i // k_}", "Grid", None, None) for i in range(case["nd"])]
    # (the oracle below identifies entities by object identity, whatever equality they define)
    dst_ids = {id(x) for x in dst}
    attrs = [tuple(a) if isinstance(a, list) else a for a in case["attrs"]]
    w = RecWorld()
    sr = ScriptedRandom(case["mode"], case["rseed"])
    saved = mu.random
    mu.random = sr
    viols = []
    ret = None
    exc = None
    second = None
    second_ret = None
    mc_ = case["max_connects"]
    try:
        if case["helper"] == "many_to_one":
            # src_set is documented as an Iterable: a list, a tuple or a one-shot iterator
            how = case.get("iterable", "list")
            it = src if how == "list" else (tuple(src) if how == "tuple" else (e for e in src))
            mu.connect_many_to_one(w, it, dst[0], *attrs)
        else:
            kw = {"evenly": case["evenly"]}
            if case["max_connects"] is not None:
                kw["max_connects"] = case["max_connects"]
            dst_user = list(dst) if case.get("dest_iterable", "list") == "list" else tuple(dst)
            ret = mu.connect_randomly(w, src, dst_user, *attrs, **kw)
            ns2 = case.get("second_ns")
            if ns2 is not None:
                if mc_ is not None and not case["evenly"]:
                    ns2 = min(ns2, case["nd"] * mc_)
                second = (RecWorld(), [Ent(f"t{i}") for i in range(ns2)])
                second_ret = mu.connect_randomly(second[0], second[1], dst_user, *attrs, **kw)
    except Exception as e:  # noqa: BLE001
        exc = e
    finally:
        mu.random = saved
    key = h64(json.dumps(case, sort_keys=True))
    out["scen"].add(key)
    out["fps"].add(h64(tuple((repr(c[0]), repr(c[1])) for c in w.calls)))
    if case["ns"] >= 2 and case["nd"] >= 2:
        out["ntfps"].add(key)
    st["mode_" + case["mode"]] = 1
    st["helper_" + case["helper"]] = 1
    mc = case["max_connects"]
    if mc is not None and not case["evenly"] and case["helper"] == "randomly" and case["ns"] == case["nd"] * mc:
        st["boundary_src_eq_dst_times_max"] = 1
    feats = {"helper": case["helper"], "evenly": case["evenly"]}
    if exc is not None:
        out["aborted"] = 1
        f_ = dict(feats, exc=type(exc).__name__)
        if second is not None:
            f_["second_call"] = True
        viols.append({"kind": "raised_on_valid_input", "features": f_,
                      "detail": {"case": case, "error": repr(exc)[:200]}})
    else:
        out["completed"] = 1
        counts = {}
        per_src = {}
        for s, d, a, kw in w.calls:
            per_src[id(s)] = per_src.get(id(s), 0) + 1
            counts[id(d)] = counts.get(id(d), 0) + 1
            if a != tuple(attrs):
                viols.append({"kind": "wrong_attrs_passed", "features": feats, "detail": {"case": case}})
                break
        if case["helper"] == "many_to_one":
            if any(d is not dst[0] for _, d, _, _ in w.calls) or \
                    [id(s) for s, _, _, _ in w.calls] != [id(x) for x in src]:
                viols.append({"kind": "many_to_one_wrong", "features": feats, "detail": {"case": case}})
        else:
            if any(per_src.get(id(s), 0) != 1 for s in src) or len(w.calls) != len(src):
                viols.append({"kind": "source_not_connected_exactly_once", "features": feats,
                              "detail": {"case": case, "per_source": {repr(k): v for k, v in per_src.items()}}})
            if any(d not in dst_ids for d in counts):
                viols.append({"kind": "connected_outside_destination_set", "features": feats,
                              "detail": {"case": case}})
            if case["evenly"]:
                allc = [counts.get(id(d), 0) for d in dst]
                if allc and max(allc) - min(allc) > 1:
                    viols.append({"kind": "not_even", "features": feats,
                                  "detail": {"case": case, "counts": allc}})
            elif mc is not None and counts and max(counts.values()) > mc:
                viols.append({"kind": "max_connects_exceeded", "features": feats,
                              "detail": {"case": case, "counts": {repr(k): v for k, v in counts.items()}}})
            if ret is None or {id(x) for x in ret} != set(counts) or len(ret) != len(counts):
                viols.append({"kind": "returned_set_wrong", "features": feats,
                              "detail": {"case": case, "returned": repr(ret)[:200]}})
        if second is not None and case["helper"] == "randomly":
            w2, src2 = second
            st["second_call_same_destination_object"] = 1
            counts2, per2 = {}, {}
            for s_, d_, a_, kw_ in w2.calls:
                per2[id(s_)] = per2.get(id(s_), 0) + 1
                counts2[id(d_)] = counts2.get(id(d_), 0) + 1
            f2 = dict(feats, second_call=True)
            if any(per2.get(id(s_), 0) != 1 for s_ in src2) or len(w2.calls) != len(src2):
                viols.append({"kind": "source_not_connected_exactly_once", "features": f2,
                              "detail": {"case": case}})
            if any(d_ not in dst_ids for d_ in counts2):
                viols.append({"kind": "connected_outside_destination_set", "features": f2, "detail": {"case": case}})
            if case["evenly"]:
                allc = [counts2.get(id(d_), 0) for d_ in dst]
                if allc and max(allc) - min(allc) > 1:
                    viols.append({"kind": "not_even", "features": f2, "detail": {"case": case, "counts": allc}})
            elif mc is not None and counts2 and max(counts2.values()) > mc:
                viols.append({"kind": "max_connects_exceeded", "features": f2, "detail": {"case": case}})
            if second_ret is None or {id(x) for x in second_ret} != set(counts2) or len(second_ret) != len(counts2):
                viols.append({"kind": "returned_set_wrong", "features": f2,
                              "detail": {"case": case, "returned": repr(second_ret)[:200]}})
    if isinstance(exc, RecursionError):
        # (how far a recursion gets depends on the depth of the caller's stack: not part of the case)
        d = digest((case, "RecursionError"))
    else:
        d = digest((case, [(repr(c[0]), repr(c[1])) for c in w.calls],
                    [(repr(c[0]), repr(c[1])) for c in (second[0].calls if second else [])], repr(exc)))
    for v in viols:
        v["digest"] = d
        v["case"] = case
    out["violations"] = viols
    out["sample"] = {"case": case, "connects": [(repr(c[0]), repr(c[1])) for c in w.calls][:6]}
    out["digest"] = d
    return out


def shrink_candidates(case, prop):
    for k in ("ns", "nd"):
        for v in sorted({0 if k == "ns" else 1, case[k] // 2, case[k] - 1}):
            if (k == "nd" and v < 1) or v < 0 or v >= case[k]:
                continue
            c = dict(case)
            c[k] = v
            if c["max_connects"] is not None and not c["evenly"] and c["ns"] > c["nd"] * c["max_connects"]:
                continue
            yield c
    if case["max_connects"] not in (None, 1):
        c = dict(case)
        c["max_connects"] = 1
        if c["ns"] <= c["nd"]:
            yield c
    if case["mode"] != "lowest":
        c = dict(case)
        c["mode"] = "lowest"
        yield c
    if len(case["attrs"]) > 1:
        c = dict(case)
        c["attrs"] = ["a"]
        yield c
