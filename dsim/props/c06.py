"""C06 -- cycle detection is exact (config swarm + run, DESIGN 6.C06)."""
from __future__ import annotations

import copy
import json
import re
from typing import Any, Dict

from .. import gen, runner
from ..engine import digest
from ..loop import h64
from ..refmodel import RM, common_len

ENGINE = "c06"
LEVEL = "exploration"
RULE = ("a case is one connection multigraph (1-5 simulators in a random group tree, plain/"
        "shifted/weak/async connections, self-connections) checked under several worklist "
        "(set pop), connect and start orders; it counts as distinct+non-trivial when the graph "
        "digest is new and the graph contains at least one directed cycle")


def make_case(seed: int, tier: str, prop: str, opts=None) -> Dict[str, Any]:
    fam_ = h64(seed, "family") % 16
    sc = gen.gen_dense_graph(seed, tier) if fam_ % 8 == 0 else (
        gen.gen_sibling_loops(seed, tier) if fam_ == 3 else gen.gen_graph(seed, tier))
    k = 4 if tier == "quick" else 8
    orders = [{"start_seed": None, "connect_seed": None, "order_seed": None}]
    for j in range(1, k):
        orders.append({"start_seed": h64(seed, "s", j) % (1 << 30) if j % 2 else None,
                       "connect_seed": h64(seed, "c", j) % (1 << 30),
                       "order_seed": h64(seed, "o", j) % (1 << 30)})
    return {"scenario": sc, "orders": orders}


def has_cycle(rm: RM) -> bool:
    adj = {}
    for e in rm.conns:
        adj.setdefault(e.u, set()).add(e.v)
    for (u, v) in rm.async_links:
        adj.setdefault(u, set()).add(v)
    color = {}

    def dfs(x):
        color[x] = 1
        for y in adj.get(x, ()):
            if color.get(y) == 1 or (color.get(y) is None and dfs(y)):
                return True
        color[x] = 2
        return False
    return any(color.get(x) is None and dfs(x) for x in list(adj))


def walk_is_unresolved(rm: RM, walk) -> bool:
    """The printed path must be a closed walk over existing connections all of whose hops
    are open for the set of simulators on it."""
    if len(walk) < 2 or walk[0] != walk[-1]:
        return False
    members = set(walk)
    hop = {}
    for e in rm.conns:
        hop.setdefault((e.u, e.v), []).append((e.k, e.weak, e.c))
    for (u, v) in rm.async_links:
        hop.setdefault((u, v), []).append((0, False, common_len(rm.path_of[u], rm.path_of[v])))
    for a, b in zip(walk, walk[1:]):
        specs = hop.get((a, b))
        if not specs:
            return False
        open_ = False
        for k, weak, c in specs:
            if k >= 1:
                continue
            if weak:
                g = rm.path_of[a][:c]
                if all(rm.path_of[m][:c] == g for m in members):
                    continue
            open_ = True
        if not open_:
            return False
    return True


def run_case(case, prop) -> Dict[str, Any]:
    sc = case["scenario"]
    rm = RM(sc)
    out = {"runs": 0, "violations": [], "stats": {}, "fps": set(), "ntfps": set(),
           "scen": {h64(json.dumps(sc, sort_keys=True))}, "sim_time": 0.0, "steps": 0,
           "aborted": 0, "completed": 0}
    st = out["stats"]
    unres = rm.unresolved_cycles()
    expect = "reject" if unres else "accept"
    st["expect_" + expect] = 1
    cyc = has_cycle(rm)
    if cyc:
        st["graphs_with_cycle"] = 1
        out["ntfps"].add(next(iter(out["scen"])))
    if any(e.weak for e in rm.conns):
        st["graphs_with_weak"] = 1
    if any(e.u == e.v for e in rm.conns):
        st["graphs_with_self_connection"] = 1
    if rm.async_links:
        st["graphs_with_async"] = 1
    if cyc and not unres:
        st["cyclic_but_resolved"] = 1
        if any(e.weak for e in rm.conns):
            st["cyclic_resolved_with_weak_present"] = 1
    digs = []
    reported = set()
    for j, o in enumerate(case["orders"]):
        sc2 = copy.deepcopy(sc)
        sc2["config"].update(o)
        r = runner.execute(sc2, {"profile": "sync", "seed": 0})
        out["runs"] += 1
        digs.append(digest(r.hist))
        oc = r.outcome
        # connect verdict disagreement is C11's matter: skip this graph
        bad = [i for i, (v, rv) in enumerate(zip(r.connects, rm.verdicts))
               if (v[0] == "ok") != (rv is None)]
        if bad:
            st["connect_disagreement_skipped"] = st.get("connect_disagreement_skipped", 0) + 1
            continue
        stepped = any(h[0] == "begin" and h[1] == "step" for h in r.hist)
        viol = None
        if oc[0] == "scenario_error":
            got = "reject"
            if expect == "accept":
                viol = {"kind": "false_rejection", "detail": {"message": oc[1]}}
            else:
                if stepped:
                    viol = {"kind": "stepped_before_rejection", "detail": {}}
                walk = re.findall(r"sid='([^']+)'", oc[1])
                if not walk_is_unresolved(rm, walk):
                    viol = {"kind": "named_cycle_not_real", "detail": {"message": oc[1], "walk": walk,
                                                                       "unresolved": unres[:3]}}
                out["aborted"] += 1
        elif oc[0] == "hang" and not any(h[0] in ("issue", "begin") for h in r.hist):
            # nothing was sent to any simulator after run() was called: the endless loop is in
            # the cycle check / ancestor caching phase
            got = "hang"
            viol = {"kind": "hang_in_cycle_check", "detail": {"outcome": list(oc), "tb": (r.tb or "")[-900:]},
                    "features": {"expect": expect}}
        elif oc[0] in ("ok", "deadlock", "livelock", "hang") or (
                oc[0] == "exception" and oc[3] not in (
                    "scenario.py:ensure_no_dataflow_cycles", "scenario.py:update_min",
                    "scenario.py:cache_triggering_ancestors", "tiered_time.py:__lt__",
                    "tiered_time.py:__add__", "scenario.py:run")):
            got = "accept"     # the cycle check passed; what happens afterwards is C05's matter
            out["completed"] += 1
            if expect == "reject":
                viol = {"kind": "missed_cycle", "detail": {"unresolved": unres[:3], "outcome": list(oc)[:3]}}
        else:
            got = "crash"
            viol = {"kind": "crash_in_cycle_check",
                    "detail": {"outcome": list(oc), "tb": (r.tb or "")[-900:]},
                    "features": {"where": oc[3] if len(oc) > 3 else None,
                                 "incomparable": "incomparable" in (oc[2] if len(oc) > 2 else ""),
                                 "expect": expect}}
        st["got_" + got] = st.get("got_" + got, 0) + 1
        if viol is not None:
            viol.setdefault("features", {"expect": expect})
            viol["digest"] = digs[-1]
            viol["case"] = {"scenario": sc, "orders": [o]}
            key = (viol["kind"], json.dumps(viol["features"], sort_keys=True))
            if key not in reported:
                reported.add(key)
                out["violations"].append(viol)
    out["sample"] = {"scenario": {k: sc[k] for k in ("groups", "conns")},
                     "sim_groups": [s["group"] for s in sc["sims"]], "rm_verdict": expect,
                     "unresolved": unres[:2]}
    out["digest"] = digest(digs)
    return out


def shrink_candidates(case, prop):
    from . import core as pcore
    sc = case["scenario"]
    o = case["orders"][0]
    base = {"start_seed": None, "connect_seed": None, "order_seed": None}
    if o != base:
        yield {"scenario": sc, "orders": [base]}
        for k in o:
            if o[k] is not None:
                o2 = dict(o)
                o2[k] = None
                yield {"scenario": sc, "orders": [o2]}
    for cand in pcore.shrink_candidates({"scenario": sc, "schedules": [{"profile": "sync", "seed": 0}]}, prop):
        if cand["schedules"][0] != {"profile": "sync", "seed": 0}:
            continue
        sc2 = cand["scenario"]
        if {k: v for k, v in sc2["config"].items() if k in base} != {k: v for k, v in sc["config"].items() if k in base}:
            continue
        yield {"scenario": sc2, "orders": [o]}
