"""C17 -- real-time pacing and external events (real-time swarm on the virtual clock;
DESIGN 6.C17)."""
from __future__ import annotations

import copy
import json
import re
from typing import Any, Dict

from .. import gen, runner
from ..engine import digest
from ..loop import h64
from ..oracles import core as ocore
from ..refmodel import RM
from . import core as pcore

ENGINE = "c17"
LEVEL = "exploration"
RULE = ("a case is a 1-3 simulator scenario (some simulators inside a group) run with rt_factor in "
        "{0.25,0.5,1,2} x time_resolution in {0.5,1,2} (a non-dyadic class 0.1/0.3 is checked with a "
        "1e-9 tolerance), reply durations drawn from {0,f/4,f/2,f,3f} plus an optional long stall on "
        "the virtual clock, rt_strict on/off, set_event(t) calls from remote stubs' event_setter at "
        "planned virtual instants (t future, = until, > until) and a 10% share of non-real-time runs; "
        "distinct+non-trivial = new (scenario, schedule) pair in which at least one step at a time "
        ">= 1 was paced by the clock")
TOL = 1e-9


def make_case(seed: int, tier: str, prop: str, opts=None) -> Dict[str, Any]:
    if h64(seed, "c17family") % 100 < 6:
        return gen.gen_rt_burst(seed, tier)      # many events booked in arbitrary order, long before they are due
    return gen.gen_rt(seed, tier)


def analyse(sc, sp, r):
    hist, vt = r.hist, r.vt
    cfg = sc["config"]
    f, tr = sc["rt"]["f"], sc["rt"]["tr"]
    rt_on = cfg.get("rt_factor") is not None
    period = f * tr
    until = sc["until"]
    viols = []
    oc = r.outcome
    instant = sc["rt"]["durations"] == [0.0] and not sp.get("overrides") and not sc["rt"].get("blocking")
    feats = {"groups": len(sc.get("groups") or [None]) > 1, "instant_replies": instant}
    # start = instant at which the last setup_done reply was delivered
    q_setup = [i for i, h in enumerate(hist) if h[0] in ("done", "end") and h[1] == "setup_done"]
    start = vt[q_setup[-1]] if q_setup else 0.0
    too_slow = [i for i, h in enumerate(hist) if h[0] == "log" and "too slow" in h[2]]
    if not sc["rt"].get("dyadic", True):
        # 0.1 and 0.3 are not binary fractions: a step that the virtual clock begins *exactly* at its
        # deadline can come out 1e-16 s "behind time" (k*0.3 computed two ways).  Reports within the
        # tolerance are rounding dust of the exact clock, not lateness.
        def _delta(msg):
            m = re.search(r"- ([-+0-9.eE]+)s behind", msg)
            return float(m.group(1)) if m else 1.0
        dust = [i for i in too_slow if _delta(hist[i][2]) <= TOL]
        if dust:
            too_slow = [i for i in too_slow if i not in dust]
            r.run.probe("too_slow_report_within_rounding_tolerance", len(dust))
    paced = False
    steps = {}
    for i, h in enumerate(hist):
        if h[0] == "begin" and h[1] == "step":
            sid, t = h[2], h[4][0]
            steps.setdefault(sid, []).append((t, i))
            if rt_on:
                lower = start + period * (t - 1)
                if t >= 1:
                    paced = True
                if vt[i] < lower - TOL:
                    viols.append({"kind": "step_too_early", "features": feats,
                                  "detail": {"sid": sid, "time": t, "begins_at": vt[i], "start": start,
                                             "lower_bound": lower, "rt_factor": f, "time_resolution": tr}})
                    break
    # events that were not in the future any more when mosaik processed them (the request was
    # stuck behind a stalled reply on the same connection): outside the property's envelope
    past_event = any(h[0] == "set_event_processed" and rt_on and h[2] < until
                     and h[2] * period <= (vt[i] - start) + TOL for i, h in enumerate(hist))
    # (b) compliant real-time run completes without internal error
    strict = cfg.get("rt_strict", False)
    strict_raise = oc[0] == "exception" and oc[1] == "RuntimeError" and "too slow" in oc[2]
    if rt_on:
        if oc[0] in ("deadlock", "livelock", "hang"):
            viols.append({"kind": "rt_run_" + oc[0], "features": feats,
                          "detail": {"outcome": list(oc), "waiting": pcore.waiting_summary(r)}})
        elif oc[0] == "exception" and not strict_raise and past_event:
            pass
        elif oc[0] == "exception" and not strict_raise:
            head = re.sub(r"[-\w]*\d[-\w:.]*", "#", " ".join(oc[2].split()[:5]))[:40]
            viols.append({"kind": "rt_internal_error", "features": dict(feats, type=oc[1], where=oc[3], msg=head),
                          "detail": {"outcome": list(oc), "tb": (r.tb or "")[-900:]}})
        elif oc[0] not in ("ok", "exception"):
            viols.append({"kind": "rt_unexpected_outcome", "features": dict(feats, outcome=oc[0]),
                          "detail": {"outcome": list(oc)}})
        # (c) instant replies are never too slow
        if instant and all(s.get("transport") in ("stock", "gated", "remote", "cmd") for s in sc["sims"]):
            if too_slow or (strict_raise and sc["rt"].get("dyadic", True)):
                # (a strict non-dyadic run that raised carries no delta: undecidable, left out)
                n_conn = len(sc["conns"])
                first = hist[too_slow[0]][2] if too_slow else oc[2]
                viols.append({"kind": "instant_run_reported_too_slow",
                              "features": dict(feats, has_connections=n_conn > 0, strict=strict),
                              "detail": {"message": first[:160], "reports": len(too_slow), "rt_factor": f,
                                         "time_resolution": tr}})
        # (e) strict raises exactly at the first too-slow report
        if strict and too_slow and not strict_raise and oc[0] == "ok":
            viols.append({"kind": "strict_did_not_raise", "features": feats, "detail": {"reports": len(too_slow)}})
        if strict_raise and not strict:
            viols.append({"kind": "non_strict_raised", "features": feats, "detail": {"outcome": list(oc)}})
    # (d) external events
    for i, h in enumerate(hist):
        if h[0] == "async_call" and h[2] == "set_event":
            sid, t = h[1], h[3]
            done = next((x for x in hist[i:] if x[0] == "async_done" and x[3] == i), None)
            err = next((x for x in hist[i:] if x[0] == "async_err" and x[3] == i), None)
            if not rt_on:
                if err is None and done is not None:
                    viols.append({"kind": "set_event_accepted_outside_rt", "features": feats,
                                  "detail": {"sid": sid, "t": t}})
                continue
            if done is None:
                continue        # the run ended before the call was answered
            if t >= until:
                warned = any(x[0] == "log" and "after simulation end" in x[2] for x in hist[i:])
                if not warned:
                    viols.append({"kind": "late_event_not_warned", "features": feats,
                                  "detail": {"sid": sid, "t": t, "until": until}})
                if any(tt == t for tt, _ in steps.get(sid, [])):
                    viols.append({"kind": "event_after_end_stepped", "features": feats,
                                  "detail": {"sid": sid, "t": t}})
            else:
                # future at the instant of the call?  (the current time step is ceil(elapsed/period))
                qd = hist.index(done)
                elapsed = vt[qd] - start
                if t * period > elapsed + period + TOL and oc[0] == "ok":
                    if not any(tt == t for tt, _ in steps.get(sid, [])):
                        viols.append({"kind": "event_lost", "features": feats,
                                      "detail": {"sid": sid, "t": t, "called_at": vt[i], "start": start,
                                                 "steps": [x for x, _ in steps.get(sid, [])]}})
    return viols, {"paced": paced, "too_slow": len(too_slow), "strict_raise": strict_raise,
                   "past_event": past_event,
                   "first_slow": too_slow[0] if too_slow else None}


def run_case(case, prop) -> Dict[str, Any]:
    sc, sp = case["scenario"], case["schedule"]
    rm = RM(sc)
    out = {"runs": 0, "violations": [], "stats": {}, "fps": set(), "ntfps": set(),
           "scen": {h64(json.dumps(sc, sort_keys=True))}, "sim_time": 0.0, "steps": 0,
           "aborted": 0, "completed": 0}
    st = out["stats"]
    if any(v is not None for v in rm.verdicts) or rm.unresolved_cycles():
        st["invalid_scenario"] = 1
        out["digest"] = "invalid"
        return out
    r = runner.execute(sc, sp, max_callbacks=300_000)
    out["runs"] += 1
    out["sim_time"] += r.stats["vtime"]
    hd = digest(r.hist)
    viols, info = analyse(sc, sp, r)
    oc = r.outcome
    if oc[0] == "exception" and oc[1] == "SimulationError" and "has performed a sub-step more than" in oc[2] \
            and any(v["kind"] == "rt_internal_error" for v in viols):
        # the same-time loop guard is not an internal error if the scenario's loop does not settle (a weak
        # cycle over persistent outputs into trigger inputs never does): then RM's demand set contains a
        # sub-step at or beyond the bound and the guard fired as C09 says it must
        from ..oracles import core as ocore
        A_ = ocore.analyse(r.hist, rm, oc, sc["config"])
        mli_ = sc["config"].get("mli", 100)
        if any(any(x >= mli_ for x in tau[1:]) for d_ in A_.dem.values() for tau in d_):
            viols = [v for v in viols if v["kind"] != "rt_internal_error"]
            st["loop_guard_expected"] = 1
    out["completed" if oc[0] == "ok" else "aborted"] += 1
    st["rt_on" if sc["config"].get("rt_factor") is not None else "rt_off"] = 1
    if info["paced"]:
        st["paced_runs"] = 1
        out["ntfps"].add(h64(next(iter(out["scen"])), json.dumps(sp, sort_keys=True)))
    if info["too_slow"]:
        st["runs_with_too_slow_report"] = 1
    if info["strict_raise"]:
        st["strict_raised"] = 1
    if info["past_event"]:
        st["runs_with_event_already_past_on_arrival"] = 1
    if sp.get("overrides"):
        st["fault_long_stall"] = 1
    if sc["rt"]["durations"] != [0.0]:
        st["fault_step_durations"] = 1
    if r.stats["probes"].get("blocking_step"):
        st["fault_blocking_step"] = r.stats["probes"]["blocking_step"]
    n_ev = sum(1 for h in r.hist if h[0] == "async_call" and h[2] == "set_event")
    if n_ev:
        st["fault_external_events"] = n_ev
    if len(sc["groups"]) > 1:
        st["grouped_rt_scenarios"] = 1
    if not sc["rt"]["dyadic"]:
        st["non_dyadic"] = 1
    out["fps"].add(pcore.fingerprint(r.hist))
    # the exact step set and the data-flow also hold in real-time mode (events are demands)
    if sc["config"].get("rt_factor") is not None and oc[0] == "ok" and not info["past_event"]:
        from ..engine import load_known, match_known
        known = load_known()
        cviols, _ = pcore.analyse_run(sc, rm, r, want_lazy_probe=False)
        for p_ in ("C01", "C02", "C03"):
            for v in cviols.get(p_, []):
                if match_known(p_, v, known) is not None:
                    st["core_known_finding_in_rt_run"] = st.get("core_known_finding_in_rt_run", 0) + 1
                    continue
                if p_ == "C02" and v["kind"] == "duplicated":
                    d_ = v["detail"]
                    t_ = d_["tau"][0]
                    q_first = next((i for i, h in enumerate(r.hist) if h[0] in ("issue", "begin") and h[1] == "step"
                                    and h[2] == d_["sid"] and (h[3] or (None,))[0] == t_), None)
                    n_ev = sum(1 for i, h in enumerate(r.hist) if h[0] == "set_event_processed" and h[1] == d_["sid"]
                               and h[2] == t_ and q_first is not None and i > q_first)
                    if n_ev >= 1:
                        # an external event for a time whose step had already been issued: the event
                        # gets its own step (C17 d); not a duplicated step in C02's sense
                        st["repeated_event_same_time"] = st.get("repeated_event_same_time", 0) + 1
                        continue
                viols.append({"kind": f"rt_{p_}_{v['kind']}", "features": {}, "detail": v["detail"]})
        st["rt_runs_checked_by_core_oracles"] = 1
    # (e) strict vs. non-strict: identical histories up to the first too-slow report
    if sc["config"].get("rt_factor") is not None and not viols and not info["past_event"]:
        # (runs in which an event was already in the past when mosaik processed it are outside the
        # envelope - they may die with "cannot progress backwards" in either mode)
        sc2 = copy.deepcopy(sc)
        sc2["config"]["rt_strict"] = not sc["config"].get("rt_strict", False)
        r2 = runner.execute(sc2, sp, max_callbacks=300_000)
        out["runs"] += 1
        skip_e = analyse(sc2, sp, r2)[1]["past_event"]
        a, b = (r, r2) if not sc["config"].get("rt_strict") else (r2, r)     # a = non-strict
        slow = next((i for i, h in enumerate(a.hist) if h[0] == "log" and "too slow" in h[2]), None)
        if skip_e:
            a = b = r
            slow = None
        cut = slow if slow is not None else min(len(a.hist), len(b.hist))
        pa = [h for h in a.hist[:cut] if h[0] in ("begin", "end")]
        pb = [h for h in b.hist[:cut] if h[0] in ("begin", "end")]
        n = min(len(pa), len(pb))
        if slow is None:
            if [h for h in a.hist if h[0] in ("begin", "end")] != [h for h in b.hist if h[0] in ("begin", "end")] \
                    or a.outcome[0] != b.outcome[0]:
                viols.append({"kind": "strict_changes_behaviour", "features": {"slow_report": False},
                              "detail": {"non_strict": list(a.outcome)[:3], "strict": list(b.outcome)[:3]}})
        else:
            if pa[:n] != pb[:n]:
                viols.append({"kind": "strict_changes_behaviour", "features": {"slow_report": True},
                              "detail": {"non_strict": list(a.outcome)[:3], "strict": list(b.outcome)[:3]}})
            if not (b.outcome[0] == "exception" and b.outcome[1] == "RuntimeError"):
                viols.append({"kind": "strict_did_not_raise", "features": {},
                              "detail": {"strict_outcome": list(b.outcome)[:3]}})
    for v in viols:
        v["digest"] = hd
        v["case"] = case
    out["violations"] = viols
    out["sample"] = {"rt": sc["rt"], "sims": [(s["sid"], s["type"], s["group"], s["transport"], s.get("events"))
                                              for s in sc["sims"]],
                     "conns": sc["conns"], "until": sc["until"], "schedule": sp, "outcome": list(oc)[:2]}
    out["digest"] = hd
    return out


def shrink_candidates(case, prop):
    sc, sp = case["scenario"], case["schedule"]
    if sp.get("overrides"):
        sp2 = dict(sp)
        sp2.pop("overrides")
        yield {"scenario": sc, "schedule": sp2}
    if sp.get("choices") != [0.0]:
        sp2 = dict(sp)
        sp2["choices"] = [0.0]
        sc2 = copy.deepcopy(sc)
        sc2["rt"]["durations"] = [0.0]
        yield {"scenario": sc2, "schedule": sp2}
    for cand in pcore.shrink_candidates({"scenario": sc, "schedules": [sp]}, prop):
        if cand["schedules"][0] is not sp and cand["schedules"][0] != sp:
            continue
        sc2 = cand["scenario"]
        if any(sc2["config"].get(k) != sc["config"].get(k) for k in ("rt_factor", "rt_strict", "time_resolution")):
            continue
        yield {"scenario": sc2, "schedule": sp}
    for i, s in enumerate(sc["sims"]):
        if s.get("events"):
            sc2 = copy.deepcopy(sc)
            sc2["sims"][i].pop("events")
            yield {"scenario": sc2, "schedule": sp}
            if len(s["events"]) > 1:
                for j in range(len(s["events"])):
                    sc2 = copy.deepcopy(sc)
                    del sc2["sims"][i]["events"][j]
                    yield {"scenario": sc2, "schedule": sp}
    if sc["rt"]["tr"] != 1.0 and sc["rt"]["dyadic"]:
        sc2 = copy.deepcopy(sc)
        sc2["rt"]["tr"] = 1.0
        sc2["config"]["time_resolution"] = 1.0
        yield {"scenario": sc2, "schedule": sp}
