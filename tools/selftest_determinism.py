#!/venv/bin/python
"""Determinism self-test (DESIGN 8): N case seeds per engine are executed in several fresh
interpreters - different PYTHONHASHSEED values, different worker counts - and the per-case
history digests are diffed.  Writes evidence/determinism.json; exit 1 on any mismatch."""
import json, os, subprocess, sys, time
ROOT = os.path.dirname(os.path.dirname(os.path.abspath(__file__)))
N = int(sys.argv[1]) if len(sys.argv) > 1 else 2000
PROPS = ["C05", "C01", "C02", "C03", "C07", "C10", "C04", "C06", "C09", "C11", "C13", "C14", "C15", "C16", "C17", "C18"]
WORKER = r'''
import sys, json, os
sys.path.insert(0, %r)
import warnings; warnings.filterwarnings("ignore")
sys.stdout = open(os.devnull, "w")
from dsim import engine
from dsim.loop import h64
import concurrent.futures as cf, multiprocessing as mp
prop, n, jobs = sys.argv[1], int(sys.argv[2]), int(sys.argv[3])
mod = engine.prop_module(prop)
def one(i):
    seed = h64(0, prop, i)
    return i, mod.run_case(mod.make_case(seed, "quick", prop, {}), prop).get("digest")
def chunk(r):
    return [one(i) for i in r]
if jobs == 1:
    res = chunk(range(n))
else:
    with cf.ProcessPoolExecutor(max_workers=jobs, mp_context=mp.get_context("fork")) as ex:
        res = [x for part in ex.map(chunk, [range(k, n, jobs) for k in range(jobs)]) for x in part]
sys.__stdout__.write(json.dumps(dict(res)))
''' % ROOT
configs = [("0", 16), ("0", 4), ("12345", 16), ("987", 1)]
out = {"cases_per_engine": {}, "configs": [f"PYTHONHASHSEED={h} workers={j}" for h, j in configs], "mismatches": {}}
bad = 0
for prop in PROPS:
    n = N if prop not in ("C13", "C14") else max(60, N // 20)
    n1 = n
    results = []
    for (hs, jobs) in configs:
        nn = n if jobs > 1 else max(40, n // 10)
        env = dict(os.environ, PYTHONHASHSEED=hs)
        p = subprocess.run([sys.executable, "-c", WORKER, prop, str(nn), str(jobs)], capture_output=True, text=True, env=env, timeout=3600)
        if p.returncode != 0:
            print(prop, "worker failed", p.stderr[-500:]); bad += 1; results.append({}); continue
        results.append(json.loads(p.stdout))
    ref = results[0]
    mism = []
    for r in results[1:]:
        for k, v in r.items():
            if ref.get(k) != v:
                mism.append(k)
    out["cases_per_engine"][prop] = n
    out["mismatches"][prop] = sorted(set(mism))[:20]
    bad += len(set(mism))
    print(prop, "cases", n, "mismatches", len(set(mism)), flush=True)
out["ok"] = bad == 0
json.dump(out, open(os.path.join(ROOT, "evidence", "determinism.json"), "w"), indent=1)
sys.exit(0 if bad == 0 else 1)
