"""C18 -- bulk connection helpers (PRNG seam, DESIGN 6.C18).  Thin use of the technique:
the only simulated nondeterminism is the stream of mosaik.util's `random` module, which is
rebound to a scripted source; World is a recorder stub - except in the real-World family (4 % of
the cases), where the helpers connect the entities of started stub simulators on a real World, the
scenario is run under a latency schedule and the run must show exactly the reported connections."""
from __future__ import annotations

import json
import random as _random
from typing import Any, Dict

from ..engine import digest
from ..loop import h64
from .. import mutants as _mutants

_mutants.apply_from_env()      # sensitivity self-test only (DSIM_MUTANT)

ENGINE = "c18"
LEVEL = "exploration"
RULE = ("a case is (|src| 0..12 (1 %: 1200-4001 onto 1-3 destinations), |dst| 1..8, max_connects 1..6 or inf, evenly on/off, helper, "
        "scripted random stream: seeded uniform / always lowest / always highest / round robin / "
        "fill one destination then the next); biased to the boundary |src| = |dst|*max_connects; "
        "distinct+non-trivial = distinct case with at least two sources and two destinations; 4 % of the cases "
        "call the helpers on a real World (1-3 source simulators with 1-4 entities, 1-2 destination simulators, "
        "connect_many_to_one also with async_requests=True and an agent that writes to every source simulator) and "
        "run it: data-flow and async permissions of the run = the connections the helper made")
MODES = ("uniform", "lowest", "highest", "round_robin", "fill")


class ScriptedRandom:
    def __init__(self, mode, seed):
        self.mode = mode
        self.rng = _random.Random(seed)
        self.n = 0
        self.calls = 0

    def randint(self, a, b):
        self.calls += 1
        if b < a:
            raise ValueError("empty range for randrange() (%d, %d, %d)" % (a, b + 1, b + 1 - a))
        m = self.mode
        if m == "uniform":
            return self.rng.randint(a, b)
        if m == "lowest" or m == "fill":
            return a
        if m == "highest":
            return b
        self.n += 1
        return a + (self.n - 1) % (b - a + 1)

    def shuffle(self, x):
        self.calls += 1
        m = self.mode
        if m == "uniform":
            self.rng.shuffle(x)
        elif m == "highest":
            x.reverse()
        elif m == "round_robin":
            if x:
                x.append(x.pop(0))
        # lowest / fill: leave as is


class Ent:
    __slots__ = ("name",)

    def __init__(self, name):
        self.name = name

    def __repr__(self):
        return self.name


class RecWorld:
    def __init__(self):
        self.calls = []

    def connect(self, src, dest, *attrs, **kw):
        self.calls.append((src, dest, attrs, kw))


def gen_real(seed: int) -> Dict[str, Any]:
    """The helpers called on a real World whose simulators are then run: what the helper reports to
    have connected must be what the data-flow (and, with async_requests, the permission to make
    asynchronous requests) of the run shows."""
    rng = _random.Random(h64(seed, "c18real"))
    helper = rng.choice(["many_to_one", "randomly"])
    n_src = rng.choice([1, 2, 2, 3])
    sims = []
    for i in range(n_src):
        sims.append({"sid": f"P{i}", "type": "time-based", "group": 0, "n_ent": rng.choice([1, 2, 3, 4]),
                     "meta_style": 0, "transport": rng.choice(["gated", "gated", "stock", "remote"]),
                     "beh": {"bseed": rng.randrange(1 << 30), "step_sizes": [rng.choice([1, 1, 2])]}})
    n_dst = 1 if helper == "many_to_one" else rng.choice([1, 2, 2])
    for i in range(n_dst):
        sims.append({"sid": f"G{i}", "type": "time-based", "group": 0, "n_ent": rng.choice([1, 2, 3]),
                     "meta_style": 0, "transport": rng.choice(["gated", "gated", "stock", "remote"]),
                     "beh": {"bseed": rng.randrange(1 << 30), "step_sizes": [rng.choice([1, 1, 2])]}})
    fan_out = rng.random() < 0.35
    if fan_out:
        # one source attribute feeds two attributes of the destination in one call: ('p_out', 'm_in'), ('p_out', 't_in')
        for s_ in sims[n_src:]:
            s_["type"] = "hybrid"
            s_["beh"] = {"bseed": s_["beh"]["bseed"], "p_self": rng.choice([0.0, 0.5]), "self_d": rng.choice([1, 2]),
                         "p_out": 0.5, "loop_len": 1}
    srcs = [[i, e] for i in range(n_src) for e in range(sims[i]["n_ent"])]
    if rng.random() < 0.3:
        rng.shuffle(srcs)
    if rng.random() < 0.3 and len(srcs) > 1:
        srcs = srcs[:rng.randrange(1, len(srcs))]
    dsts = [[n_src + i, e] for i in range(n_dst) for e in range(sims[n_src + i]["n_ent"])]
    asyn = helper == "many_to_one" and rng.random() < 0.5
    b = {"helper": helper, "srcs": srcs, "dsts": dsts,
         "pairs": [["p_out", "m_in"], ["p_out", "t_in"]] if fan_out else [["p_out", "m_in"]], "async": asyn,
         "iterable": rng.choice(["list", "tuple", "generator"]), "mode": rng.choice(MODES),
         "rseed": rng.randrange(1 << 30), "evenly": True, "max_connects": None}
    if helper == "many_to_one":
        b["dsts"] = [rng.choice(dsts)]
        if asyn:
            G = sims[n_src]
            G["stub"] = "async"
            calls = []
            for i in sorted({si for si, _ in srcs}):
                # (towards an entity of every source simulator: the link is one per simulator pair)
                calls.append({"kind": "set_data", "p": rng.choice([0.6, 1.0]), "src_eid": f"e{b['dsts'][0][1]}",
                              "dst": f"P{i}.e{rng.randrange(sims[i]['n_ent'])}", "attr": "m_in"})
                if rng.random() < 0.3:
                    calls.append({"kind": "get_data", "p": 0.7, "dst": f"P{i}.e0", "attrs": ["p_out"]})
            G["beh"]["async_calls"] = calls
    else:
        b["evenly"] = rng.random() < 0.5
        b["max_connects"] = rng.choice([None, 1, 2, 3])
        if not b["evenly"] and b["max_connects"] is not None:
            b["srcs"] = srcs = srcs[:len(dsts) * b["max_connects"]]
        b["dest_iterable"] = rng.choice(["list", "tuple"])
    sc = {"groups": [None], "sims": sims, "conns": [], "bulk": [b], "until": rng.choice([1, 2, 3, 4]),
          "config": {"cache": rng.random() < 0.5, "lazy": rng.random() < 0.5, "debug": False, "mli": 100,
                     "start_seed": None, "connect_seed": None, "order_seed": None, "iteration_cost": 0.0}}
    from .. import gen
    return {"real": True, "scenario": sc, "schedules": [gen.gen_schedule(seed, sc, rng.choice([0, 1, 2]))]}


def make_case(seed: int, tier: str, prop: str, opts=None) -> Dict[str, Any]:
    if h64(seed, "c18family") % 100 < 4:
        return gen_real(seed)
    rng = _random.Random(h64(seed, "c18"))
    nd = rng.randint(1, 8)
    mc = rng.choice([None, 1, 1, 2, 3, 4, 6])
    helper = rng.choice(["randomly", "randomly", "randomly", "many_to_one"])
    evenly = rng.random() < 0.4
    if mc is not None and not evenly and rng.random() < 0.5:
        ns = nd * mc if nd * mc <= 14 else rng.randint(0, 12)       # the boundary
    else:
        ns = rng.randint(0, 12)
    if mc is not None and not evenly:
        ns = min(ns, nd * mc)
    if rng.random() < 0.01:
        # many sources onto very few destinations (thousands of rounds of the even distribution)
        ns, nd, evenly, mc = rng.choice([1200, 2500, 4001]), rng.choice([1, 2, 3]), True, None
    return {"ns": ns, "nd": nd, "max_connects": mc, "evenly": evenly, "helper": helper,
            "iterable": rng.choice(["list", "tuple", "generator"]),
            "mode": rng.choice(MODES), "rseed": rng.randrange(1 << 30),
            "attrs": rng.choice([["a"], ["a", ["b", "c"]]]),
            # the caller's destination collection (its own list object, or a tuple) and a second
            # call that passes the very same object again (e.g. PVs, then loads, onto the same buses)
            "dest_iterable": rng.choice(["list", "list", "tuple"]),
            "second_ns": rng.choice([None, None, rng.randint(0, 12)]),
            # real mosaik entities: the destinations belong to several instances of one simulator,
            # whose entity ids coincide (Grid-0.node_0, Grid-1.node_0, ...)
            "entities": rng.choice([None, None, None, 2, 3]),
            # connect_many_to_one(..., async_requests=True)
            "async_flag": rng.random() < 0.3}


def _bulk_hook(sc):
    def hook(run, world, ents):
        import mosaik.util as mu
        for bi, b in enumerate(sc["bulk"]):
            src = [ents[si][ei] for si, ei in b["srcs"]]
            dst = [ents[si][ei] for si, ei in b["dsts"]]
            orig = world.connect

            def rec_connect(s_, d_, *attrs, _bi=bi, **kw):
                run.rec("bulk_connect", _bi, s_.sid, s_.eid, d_.sid, d_.eid, attrs, tuple(sorted(kw.items())))
                return orig(s_, d_, *attrs, **kw)
            world.connect = rec_connect
            saved = mu.random
            mu.random = ScriptedRandom(b["mode"], b["rseed"])
            pairs = [tuple(p_) for p_ in b["pairs"]]
            try:
                if b["helper"] == "many_to_one":
                    how = b.get("iterable", "list")
                    it = src if how == "list" else (tuple(src) if how == "tuple" else (e for e in src))
                    kw = {"async_requests": True} if b["async"] else {}
                    mu.connect_many_to_one(world, it, dst[0], *pairs, **kw)
                    run.rec("bulk_result", bi, "ok", None)
                else:
                    kw = {"evenly": b["evenly"]}
                    if b["max_connects"] is not None:
                        kw["max_connects"] = b["max_connects"]
                    dst_user = list(dst) if b.get("dest_iterable", "list") == "list" else tuple(dst)
                    ret = mu.connect_randomly(world, src, dst_user, *pairs, **kw)
                    run.rec("bulk_result", bi, "ok", sorted(e.full_id for e in ret))
            except Exception as e:  # noqa: BLE001
                run.rec("bulk_result", bi, "raised", type(e).__name__ + ": " + str(e)[:200])
            finally:
                mu.random = saved
                del world.connect
    return hook


def run_real(case, prop) -> Dict[str, Any]:
    import copy
    from .. import runner
    from ..refmodel import RM
    from . import core as pcore
    from . import c16 as pc16
    sc = case["scenario"]
    sp = case["schedules"][0]
    out = {"runs": 1, "violations": [], "stats": {"real_world_cases": 1}, "fps": set(), "ntfps": set(),
           "scen": {h64(json.dumps(sc, sort_keys=True))}, "sim_time": 0.0, "steps": 0, "aborted": 0, "completed": 0}
    st = out["stats"]
    r = runner.execute(sc, sp, hooks={"bulk": _bulk_hook(sc)})
    out["sim_time"] = r.stats["vtime"]
    hd = digest(r.hist)
    out["fps"].add(pcore.fingerprint(r.hist))
    b = sc["bulk"][0]
    feats = {"helper": b["helper"], "evenly": b["evenly"], "real_world": True, "async": bool(b["async"])}
    viols = []
    idx = {s["sid"]: i for i, s in enumerate(sc["sims"])}
    made = [h for h in r.hist if h[0] == "bulk_connect"]
    result = next((h for h in r.hist if h[0] == "bulk_result"), None)
    st["helper_" + b["helper"]] = 1
    if len(b["srcs"]) >= 2 and len(b["dsts"]) >= 2:
        out["ntfps"].add(h64(next(iter(out["scen"])), "real"))
    if r.outcome[0] == "start_error" or result is None:
        raise RuntimeError(f"harness: real-world C18 case did not reach the helper: {r.outcome}")
    if result[2] == "raised":
        out["aborted"] = 1
        viols.append({"kind": "raised_on_valid_input", "features": dict(feats, exc=result[3].split(":")[0]),
                      "detail": {"bulk": b, "error": result[3]}})
    else:
        srcs = [(sc["sims"][si]["sid"], f"e{ei}") for si, ei in b["srcs"]]
        dsts = [(sc["sims"][si]["sid"], f"e{ei}") for si, ei in b["dsts"]]
        per_src, counts = {}, {}
        for h in made:
            per_src[(h[2], h[3])] = per_src.get((h[2], h[3]), 0) + 1
            counts[(h[4], h[5])] = counts.get((h[4], h[5]), 0) + 1
            kw = dict(h[7])
            if bool(kw.get("async_requests", False)) != bool(b["async"]) or \
                    any(v_ not in (False, 0, None) and v_ != {} for k_, v_ in kw.items() if k_ != "async_requests"):
                viols.append({"kind": "wrong_keywords_passed", "features": feats, "detail": {"bulk": b, "kw": kw}})
                break
        if any(per_src.get(s_, 0) != 1 for s_ in srcs) or len(made) != len(srcs):
            viols.append({"kind": "source_not_connected_exactly_once", "features": feats,
                          "detail": {"bulk": b, "per_source": {repr(k): v for k, v in per_src.items()}}})
        if any(d_ not in dsts for d_ in counts):
            viols.append({"kind": "connected_outside_destination_set", "features": feats, "detail": {"bulk": b}})
        if b["helper"] == "randomly":
            if b["evenly"]:
                allc = [counts.get(d_, 0) for d_ in dsts]
                if allc and max(allc) - min(allc) > 1:
                    viols.append({"kind": "not_even", "features": feats, "detail": {"bulk": b, "counts": allc}})
            elif b["max_connects"] is not None and counts and max(counts.values()) > b["max_connects"]:
                viols.append({"kind": "max_connects_exceeded", "features": feats, "detail": {"bulk": b}})
            if sorted(f"{a}.{e}" for a, e in counts) != list(result[3]):
                viols.append({"kind": "returned_set_wrong", "features": feats,
                              "detail": {"bulk": b, "returned": result[3]}})
        # what the run shows: data-flow (and async permissions) of exactly these connections
        sc_eff = copy.deepcopy(sc)
        for h in made:
            sc_eff["conns"].append({"src": idx[h[2]], "se": int(h[3][1:]), "dst": idx[h[4]], "de": int(h[5][1:]),
                                    "pairs": [list(p_) if isinstance(p_, (tuple, list)) else [p_, p_] for p_ in h[6]],
                                    "shift": 0, "weak": False, "async": bool(dict(h[7]).get("async_requests", False))})
        rm = RM(sc_eff)
        oc = r.outcome
        if not viols and all(v_ is None for v_ in rm.verdicts):
            if oc[0] != "ok":
                out["aborted"] = 1
                viols.append({"kind": "run_failed_after_bulk_connect",
                              "features": dict(feats, outcome=oc[0], type=oc[1] if oc[0] == "exception" else None),
                              "detail": {"bulk": b, "outcome": list(oc), "tb": (r.tb or "")[-600:]}})
            else:
                out["completed"] = 1
                byp, info = pcore.analyse_run(sc_eff, rm, r, want_lazy_probe=False)
                out["steps"] = info.get("steps", 0)
                for p_ in (("C02",) if b["async"] else ("C01", "C02", "C03")):
                    for v_ in byp.get(p_, [])[:1]:
                        viols.append({"kind": "run_differs_from_reported_connections",
                                      "features": dict(feats, oracle=p_, what=v_["kind"]),
                                      "detail": {"bulk": b, "violation": v_["detail"]}})
                if b["async"]:
                    vs, n_set = pc16.check_history(sc_eff, r)
                    st["real_world_set_data_calls"] = n_set
                    for v_ in vs[:1]:
                        viols.append({"kind": "async_requests_not_as_connected",
                                      "features": dict(feats, what=v_["kind"]), "detail": {"bulk": b, "violation": v_["detail"]}})
    for v in viols:
        v["digest"] = hd
        v["case"] = case
    out["violations"] = viols
    out["sample"] = None
    out["digest"] = hd
    return out


def run_case(case, prop) -> Dict[str, Any]:
    if case.get("real"):
        return run_real(case, prop)
    import mosaik.util as mu
    out = {"runs": 1, "violations": [], "stats": {}, "fps": set(), "ntfps": set(),
           "scen": set(), "sim_time": 0.0, "steps": 0, "aborted": 0, "completed": 0}
    st = out["stats"]
    src = [Ent(f"s{i}") for i in range(case["ns"])]
    dst = [Ent(f"d{i}") for i in range(case["nd"])]
    if case.get("entities"):
        from mosaik.scenario import Entity
        k_ = case["entities"]
        src = [Entity(f"Pv-{i % k_}", f"pv_{i // k_}", "Pv", None, None) for i in range(case["ns"])]
        dst = [Entity(f"Grid-{i % k_}", f"node_{i // k_}", "Grid", None, None) for i in range(case["nd"])]
    # (the oracle below identifies entities by object identity, whatever equality they define)
    dst_ids = {id(x) for x in dst}
    attrs = [tuple(a) if isinstance(a, list) else a for a in case["attrs"]]
    w = RecWorld()
    sr = ScriptedRandom(case["mode"], case["rseed"])
    saved = mu.random
    mu.random = sr
    viols = []
    ret = None
    exc = None
    second = None
    second_ret = None
    mc_ = case["max_connects"]
    try:
        if case["helper"] == "many_to_one":
            # src_set is documented as an Iterable: a list, a tuple or a one-shot iterator
            how = case.get("iterable", "list")
            it = src if how == "list" else (tuple(src) if how == "tuple" else (e for e in src))
            mu.connect_many_to_one(w, it, dst[0], *attrs, **({"async_requests": True} if case.get("async_flag") else {}))
        else:
            kw = {"evenly": case["evenly"]}
            if case["max_connects"] is not None:
                kw["max_connects"] = case["max_connects"]
            dst_user = list(dst) if case.get("dest_iterable", "list") == "list" else tuple(dst)
            ret = mu.connect_randomly(w, src, dst_user, *attrs, **kw)
            ns2 = case.get("second_ns")
            if ns2 is not None:
                if mc_ is not None and not case["evenly"]:
                    ns2 = min(ns2, case["nd"] * mc_)
                second = (RecWorld(), [Ent(f"t{i}") for i in range(ns2)])
                second_ret = mu.connect_randomly(second[0], second[1], dst_user, *attrs, **kw)
    except Exception as e:  # noqa: BLE001
        exc = e
    finally:
        mu.random = saved
    key = h64(json.dumps(case, sort_keys=True))
    out["scen"].add(key)
    out["fps"].add(h64(tuple((repr(c[0]), repr(c[1])) for c in w.calls)))
    if case["ns"] >= 2 and case["nd"] >= 2:
        out["ntfps"].add(key)
    st["mode_" + case["mode"]] = 1
    st["helper_" + case["helper"]] = 1
    mc = case["max_connects"]
    if mc is not None and not case["evenly"] and case["helper"] == "randomly" and case["ns"] == case["nd"] * mc:
        st["boundary_src_eq_dst_times_max"] = 1
    feats = {"helper": case["helper"], "evenly": case["evenly"]}
    if exc is not None:
        out["aborted"] = 1
        f_ = dict(feats, exc=type(exc).__name__)
        if second is not None:
            f_["second_call"] = True
        viols.append({"kind": "raised_on_valid_input", "features": f_,
                      "detail": {"case": case, "error": repr(exc)[:200]}})
    else:
        out["completed"] = 1
        counts = {}
        per_src = {}
        for s, d, a, kw in w.calls:
            per_src[id(s)] = per_src.get(id(s), 0) + 1
            counts[id(d)] = counts.get(id(d), 0) + 1
            if a != tuple(attrs):
                viols.append({"kind": "wrong_attrs_passed", "features": feats, "detail": {"case": case}})
                break
            want_async = bool(case.get("async_flag")) and case["helper"] == "many_to_one"
            if bool(kw.get("async_requests", False)) != want_async or \
                    any(v_ not in (False, 0, None) and v_ != {} for k_, v_ in kw.items() if k_ != "async_requests"):
                viols.append({"kind": "wrong_keywords_passed", "features": feats, "detail": {"case": case, "kw": repr(kw)}})
                break
        if case["helper"] == "many_to_one":
            if any(d is not dst[0] for _, d, _, _ in w.calls) or \
                    [id(s) for s, _, _, _ in w.calls] != [id(x) for x in src]:
                viols.append({"kind": "many_to_one_wrong", "features": feats, "detail": {"case": case}})
        else:
            if any(per_src.get(id(s), 0) != 1 for s in src) or len(w.calls) != len(src):
                viols.append({"kind": "source_not_connected_exactly_once", "features": feats,
                              "detail": {"case": case, "per_source": {repr(k): v for k, v in per_src.items()}}})
            if any(d not in dst_ids for d in counts):
                viols.append({"kind": "connected_outside_destination_set", "features": feats,
                              "detail": {"case": case}})
            if case["evenly"]:
                allc = [counts.get(id(d), 0) for d in dst]
                if allc and max(allc) - min(allc) > 1:
                    viols.append({"kind": "not_even", "features": feats,
                                  "detail": {"case": case, "counts": allc}})
            elif mc is not None and counts and max(counts.values()) > mc:
                viols.append({"kind": "max_connects_exceeded", "features": feats,
                              "detail": {"case": case, "counts": {repr(k): v for k, v in counts.items()}}})
            if ret is None or {id(x) for x in ret} != set(counts) or len(ret) != len(counts):
                viols.append({"kind": "returned_set_wrong", "features": feats,
                              "detail": {"case": case, "returned": repr(ret)[:200]}})
        if second is not None and case["helper"] == "randomly":
            w2, src2 = second
            st["second_call_same_destination_object"] = 1
            counts2, per2 = {}, {}
            for s_, d_, a_, kw_ in w2.calls:
                per2[id(s_)] = per2.get(id(s_), 0) + 1
                counts2[id(d_)] = counts2.get(id(d_), 0) + 1
            f2 = dict(feats, second_call=True)
            if any(per2.get(id(s_), 0) != 1 for s_ in src2) or len(w2.calls) != len(src2):
                viols.append({"kind": "source_not_connected_exactly_once", "features": f2,
                              "detail": {"case": case}})
            if any(d_ not in dst_ids for d_ in counts2):
                viols.append({"kind": "connected_outside_destination_set", "features": f2, "detail": {"case": case}})
            if case["evenly"]:
                allc = [counts2.get(id(d_), 0) for d_ in dst]
                if allc and max(allc) - min(allc) > 1:
                    viols.append({"kind": "not_even", "features": f2, "detail": {"case": case, "counts": allc}})
            elif mc is not None and counts2 and max(counts2.values()) > mc:
                viols.append({"kind": "max_connects_exceeded", "features": f2, "detail": {"case": case}})
            if second_ret is None or {id(x) for x in second_ret} != set(counts2) or len(second_ret) != len(counts2):
                viols.append({"kind": "returned_set_wrong", "features": f2,
                              "detail": {"case": case, "returned": repr(second_ret)[:200]}})
    if isinstance(exc, RecursionError):
        # (how far a recursion gets depends on the depth of the caller's stack: not part of the case)
        d = digest((case, "RecursionError"))
    else:
        d = digest((case, [(repr(c[0]), repr(c[1])) for c in w.calls],
                    [(repr(c[0]), repr(c[1])) for c in (second[0].calls if second else [])], repr(exc)))
    for v in viols:
        v["digest"] = d
        v["case"] = case
    out["violations"] = viols
    out["sample"] = {"case": case, "connects": [(repr(c[0]), repr(c[1])) for c in w.calls][:6]}
    out["digest"] = d
    return out


def shrink_candidates(case, prop):
    if case.get("real"):
        import copy
        sc, sp = case["scenario"], case["schedules"][0]
        if sp.get("profile") != "sync":
            yield dict(case, schedules=[{"profile": "sync", "seed": 0}])
        b = sc["bulk"][0]
        for i in reversed(range(len(b["srcs"]))):
            if len(b["srcs"]) > 1:
                sc2 = copy.deepcopy(sc)
                del sc2["bulk"][0]["srcs"][i]
                yield dict(case, scenario=sc2)
        for i in reversed(range(len(b["dsts"]))):
            if len(b["dsts"]) > 1:
                sc2 = copy.deepcopy(sc)
                del sc2["bulk"][0]["dsts"][i]
                b2 = sc2["bulk"][0]
                if not b2["evenly"] and b2["max_connects"] is not None and len(b2["srcs"]) > len(b2["dsts"]) * b2["max_connects"]:
                    continue
                yield dict(case, scenario=sc2)
        for u in (1, 2):
            if u < sc["until"]:
                sc2 = copy.deepcopy(sc)
                sc2["until"] = u
                yield dict(case, scenario=sc2)
        for i, s_ in enumerate(sc["sims"]):
            if s_.get("transport") != "gated":
                sc2 = copy.deepcopy(sc)
                sc2["sims"][i]["transport"] = "gated"
                yield dict(case, scenario=sc2)
        return
    for k in ("ns", "nd"):
        for v in sorted({0 if k == "ns" else 1, case[k] // 2, case[k] - 1}):
            if (k == "nd" and v < 1) or v < 0 or v >= case[k]:
                continue
            c = dict(case)
            c[k] = v
            if c["max_connects"] is not None and not c["evenly"] and c["ns"] > c["nd"] * c["max_connects"]:
                continue
            yield c
    if case["max_connects"] not in (None, 1):
        c = dict(case)
        c["max_connects"] = 1
        if c["ns"] <= c["nd"]:
            yield c
    if case["mode"] != "lowest":
        c = dict(case)
        c["mode"] = "lowest"
        yield c
    if len(case["attrs"]) > 1:
        c = dict(case)
        c["attrs"] = ["a"]
        yield c
