"""The one current run of this process, its history and its keyed schedule."""
from __future__ import annotations

import copy
from typing import Any, Dict, List, Optional

from .loop import h01, h64


class History:
    """Append-only list of records; the index of a record is its global sequence
    number.  A record is a tuple whose first element is its kind.  Nothing here draws
    from a PRNG or reads a clock other than the virtual one handed in."""

    __slots__ = ("rec", "vt")

    def __init__(self):
        self.rec: List[tuple] = []
        self.vt: List[float] = []

    def add(self, now: float, *r) -> int:
        self.rec.append(r)
        self.vt.append(now)
        return len(self.rec) - 1

    def __len__(self):
        return len(self.rec)


UNIT = 0.001   # virtual seconds per latency unit in non-real-time runs


class Schedule:
    """Keyed delays: delay = f(profile, seed, sid, ordinal, phase); single keys can be
    overridden (replay / minimisation).  Returns None for "do not yield at all"."""

    PROFILES = ("sync", "zero", "uniform", "per_sim", "starved", "heavy",
                "slow_req", "ties", "slowlink", "explicit")

    def __init__(self, spec: Optional[Dict[str, Any]] = None):
        spec = dict(spec or {})
        self.profile = spec.get("profile", "sync")
        self.seed = spec.get("seed", 0)
        self.unit = spec.get("unit", UNIT)
        self.overrides: Dict[str, float] = dict(spec.get("overrides", {}))
        self.zeroed = set(spec.get("zeroed", ()))        # keys forced to 0
        self.starved = spec.get("starved")               # sid or None
        self.choices = spec.get("choices")               # optional explicit choice list
        self.split = bool(spec.get("split"))             # remote transports: split frames into segments
        self.slow = spec.get("slow")                     # {"sid", "delay"}: every reply of that simulator takes that long
        self.used: Dict[str, float] = {}

    def max_delay(self) -> float:
        """Upper bound of a single delay this schedule can produce."""
        m = max(self.overrides.values(), default=0.0)
        if self.slow:
            m = max(m, float(self.slow["delay"]))
        if self.choices is not None:
            return max(m, max(self.choices, default=0.0) * self.unit)
        top = {"sync": 0, "zero": 0, "explicit": 0, "uniform": 5, "ties": 2, "per_sim": 15, "heavy": 50,
               "slowlink": 250, "slow_req": 10}.get(self.profile)
        if top is None:
            return float("inf")          # (starved: deliberately enormous delays)
        return max(m, top * self.unit)

    def spec(self) -> Dict[str, Any]:
        d = {"profile": self.profile, "seed": self.seed, "unit": self.unit}
        if self.overrides:
            d["overrides"] = dict(self.overrides)
        if self.zeroed:
            d["zeroed"] = sorted(self.zeroed)
        if self.starved is not None:
            d["starved"] = self.starved
        if self.choices is not None:
            d["choices"] = list(self.choices)
        if self.split:
            d["split"] = True
        if self.slow:
            d["slow"] = dict(self.slow)
        return d

    def delay(self, sid: str, ordinal: int, phase: str) -> Optional[float]:
        key = f"{sid}/{ordinal}/{phase}"
        if key in self.overrides:
            d = self.overrides[key]
        elif key in self.zeroed:
            d = 0.0
        elif self.slow and sid == self.slow["sid"] and phase in ("rep", "xrep"):
            d = float(self.slow["delay"])
        else:
            d = self._profile_delay(sid, ordinal, phase)
        if d is not None:
            self.used[key] = d
        return d

    def _profile_delay(self, sid, ordinal, phase):
        p = self.profile
        u = self.unit
        if p == "sync":
            return None
        if p in ("zero", "explicit"):
            return 0.0
        x = h01(self.seed, sid, ordinal, phase)
        if self.choices is not None:
            return self.choices[int(x * len(self.choices))] * u
        if p == "uniform":
            return (0, 1, 2, 5)[int(x * 4)] * u
        if p == "ties":
            return (0, 1, 1, 2)[int(x * 4)] * u
        if p == "per_sim":
            base = (0.5, 1, 3, 10)[h64(self.seed, sid, "base") % 4]
            return base * (0.5 + x) * u
        if p == "starved":
            if sid == self.starved and phase.startswith("rep"):
                return 1.0e6 * u * (1 + x)
            return (0, 1, 2, 5)[int(x * 4)] * u
        if p == "heavy":
            if x < 0.1:
                return 50 * u
            return (0, 1)[int(x * 20) % 2] * u
        if p == "slowlink":
            # some links slower than RemoteProxy.stop's 0.1 s patience
            if h64(self.seed, sid, "slow") % 2:
                return (20, 60, 120, 250)[int(x * 4)] * u
            return (0, 1, 2, 5)[int(x * 4)] * u
        if p == "slow_req":
            if phase.startswith("req"):
                return (2, 5, 10)[int(x * 3)] * u
            return (0, 0, 1)[int(x * 3)] * u
        raise ValueError(p)


class Run:
    """Everything belonging to one simulated execution."""

    def __init__(self, run_id, scenario, sched: Schedule, faults=None):
        self.id = run_id
        self.scenario = scenario
        self.sched = sched
        self.faults = faults or []
        self.hist = History()
        self.loop = None
        self.world = None
        self.nodes: Dict[str, Any] = {}      # sid -> Node (remote transport)
        self.stubs: Dict[str, Any] = {}      # sid -> stub instance
        self.proxies: Dict[str, Any] = {}    # sid -> base proxy
        self.counters: Dict[str, int] = {}
        self.fault_state: Dict[str, Any] = {}
        self.in_flight: Dict[str, int] = {}  # sid -> number of requests in flight (sim side)
        self.in_flight_mosaik: Dict[str, int] = {}  # sid -> requests issued by mosaik, not yet answered
        self.probes: Dict[str, int] = {}
        self.current_spec = None
        self.loop_exceptions: List[str] = []
        self.all_nodes: List[Any] = []

    def rec(self, *r) -> int:
        if self.loop is not None:
            self.loop.last_event_vtime = self.loop.time()
        return self.hist.add(self.loop.time() if self.loop is not None else 0.0, *r)

    def probe(self, name, n=1):
        self.probes[name] = self.probes.get(name, 0) + n

    def tau_of(self, sid):
        w = self.world
        if w is None:
            return None
        r = w.sims.get(sid)
        if r is None or r.current_step is None:
            return None
        return tuple(r.current_step.tiers)


CUR: Optional[Run] = None


def set_current(run: Optional[Run]):
    global CUR
    CUR = run


def cur() -> Run:
    assert CUR is not None
    return CUR


def dc(x):
    return copy.deepcopy(x)
